"""Per-property pipelines."""
import os, json, subprocess, random, copy
from orchestrator import *

PROPS = {}


def prop(pid):
    def deco(f):
        PROPS[pid] = f
        return f
    return deco


def cfgtext(spec="Spec", invariants=(), constants=None, props=(), extra=""):
    s = "SPECIFICATION %s\n" % spec
    for k, v in (constants or {}).items():
        s += "CONSTANT %s = %s\n" % (k, v)
    for i in invariants:
        s += "INVARIANT %s\n" % i
    for p in props:
        s += "PROPERTY %s\n" % p
    s += "CHECK_DEADLOCK FALSE\n" + extra
    return s


def tlaset(xs):
    return "{" + ", ".join('"%s"' % x for x in xs) + "}"


# ----------------------------------------------------------------------------- CoseModel: the object life cycle as a state machine
MODEL_CONSTS = dict(Algs='{"A", "B"}', Keys='{"k1", "k2"}', ObjKind='"sign1"')
MODEL_PROPS = ["C03_Exact", "C04_Agreement", "C01_SignThenVerify", "C19_Atomic", "C20_NoHalfSigned", "C18_ReadOnly"]
MODEL_INVS = ["C09_RoundTrip", "C02_HeadIrrelevant", "C03_UnprotectedIrrelevant"]


def model_stage(ctx, pid):
    """(a) model-check the life-cycle model, (b) generate behaviours, replay them, (c) validate the runs against the model.
    Returns (events, rejects) with only the reasons that belong to property pid (reasons are tagged 'Cxx:')."""
    # (a) exhaustive model checking of the design (all properties), small constants
    mcc = dict(MODEL_CONSTS, Keys='{"k1"}') if ctx.quick() else MODEL_CONSTS
    mc(ctx, "CoseModel", cfgtext(invariants=MODEL_INVS, props=MODEL_PROPS, constants=dict(MaxHist=0, Record="FALSE", KidVals="{0}", **mcc),
                                 extra="VIEW View\n"), timeout=1200, heap="8g")
    # (b) behaviours: every behaviour of length 2 (exhaustive) and random longer ones
    n, depth = (1500, 9) if ctx.quick() else (20000, 12)      # TLC 1.8 emits about 57 behaviours per requested trace in this mode
    events, rej = [], {}
    for okind in ("sign1", "sign1u", "sig"):
        kc = dict(MODEL_CONSTS, ObjKind='"%s"' % okind)
        consts = dict(Record="TRUE", KidVals="{0, 1}", **kc)
        cases = []
        if okind == "sign1" or not ctx.quick():
            # every behaviour of length 2 from the start, from a signed message, and from a signed message that was sent and parsed
            for pfx, plen in ((0, 0), (1, 1), (2, 3)):
                cases += gen(ctx, "Gen_Model", cfgtext(spec="GSpec", invariants=["Emit"], constants=dict(MaxHist=plen + 2, PrefixId=pfx, **consts)), timeout=1200, heap="8g")
        nk = n if okind == "sign1" else n // 2
        cases += gen(ctx, "Gen_Model", cfgtext(invariants=["Emit"], constants=dict(MaxHist=depth, PrefixId=0, **consts)), simulate=max(1, nk // 50), depth=depth + 2, seed=ctx.seed, timeout=1200, heap="8g")
        ev = harness(ctx, ["exec", "memflow"], cases)
        # (c) trace validation
        jc = "".join("CONSTANT %s = %s\n" % kv for kv in dict(MaxHist=0, Record="FALSE", KidVals="{0, 1}", **kc).items())
        r = judge(ctx, "Trace_Model", ev, per_shard=400, extra_cfg=jc)
        base = len(events)
        events += ev
        for i, x in r.items():
            rej[base + i] = x
    mine = {}
    other = 0
    for idx, reasons in rej.items():
        r = [x for x in reasons if x.startswith(pid + ":")]
        other += len(reasons) - len(r)
        if r:
            mine[idx] = r
    ctx.notes["model_behaviours_replayed"] = len(events)
    ctx.notes["model_rejections_attributed_to_other_properties"] = other
    return events, mine


# ----------------------------------------------------------------------------- CsModel: the countersignature life cycle as a state machine
CS_CONSTS = dict(Algs='{"A", "B"}', Keys='{"k1", "k2"}', Exts='{"none", "e1"}')
CS_PROPS = ["CS_Exact", "CS_SignThenVerify", "CS_ReadOnly", "CS_NoHalfSigned", "CS_Atomic"]
CS_INVS = ["CS_BindsParent", "CS_FormsSeparate", "CS_FormImmaterial", "CS_RoundTrip"]


def cs_stage(ctx, pid, light=False):
    """CsModel: (a) model checking (core scope exhaustively, full scope up to a number of steps), (b) behaviours replayed on real objects,
    (c) trace validation; returns the events and the rejections that belong to property pid.  light: random behaviours only (the owner of
    the model, C10, runs everything)"""
    one = dict(CS_CONSTS, Keys='{"k1"}')
    if pid == "C10":         # the model's properties are checked on the model by its owner
        mc(ctx, "CsModel", cfgtext(invariants=CS_INVS, props=CS_PROPS, constants=dict(MaxHist=0, Record="FALSE", Scope='"core"', MaxLevel=0, **(one if ctx.quick() else CS_CONSTS)),
                               extra="VIEW View\n"), timeout=1800, heap="8g")
        mc(ctx, "CsModel", cfgtext(invariants=CS_INVS, props=CS_PROPS, constants=dict(MaxHist=0, Record="FALSE", Scope='"all"', MaxLevel=5 if ctx.quick() else 6, **one),
                               extra="VIEW View\nCONSTRAINT LevelBound\n"), timeout=3000, heap="8g")
    n, depth = (1200, 10) if ctx.quick() else ((8000, 14) if pid == "C10" else (3000, 14))       # (20000 behaviours took 48 GB in the orchestrator)
    consts = dict(Record="TRUE", Scope='"all"', MaxLevel=0, **CS_CONSTS)
    cases = []
    if not light:
        for pfx, plen in ((0, 0), (1, 1), (2, 4), (3, 2)):
            cases += gen(ctx, "Gen_Cs", cfgtext(spec="GSpec", invariants=["Emit"], constants=dict(MaxHist=plen + 2 if (pfx == 0 or (pfx == 1 and not ctx.quick())) else plen + 1, PrefixId=pfx, **consts)), timeout=1200, heap="8g")
    cases += gen(ctx, "Gen_Cs", cfgtext(invariants=["Emit"], constants=dict(MaxHist=depth, PrefixId=0, **consts)), simulate=max(1, n // 50), depth=depth + 2, seed=ctx.seed, timeout=1200, heap="8g")
    events = harness(ctx, ["exec", "memflow"], cases)
    jc = "".join("CONSTANT %s = %s\n" % kv for kv in dict(MaxHist=0, Record="FALSE", Scope='"all"', MaxLevel=0, **CS_CONSTS).items())
    rej = judge(ctx, "Trace_Cs", events, per_shard=300, extra_cfg=jc)
    mine, other = {}, 0
    for idx, reasons in rej.items():
        r = [x for x in reasons if x.startswith(pid + ":") or x.startswith("infra-")]
        other += len(reasons) - len(r)
        if r:
            mine[idx] = r
    ctx.notes["csmodel_behaviours_replayed"] = len(events)
    ctx.notes["csmodel_rejections_attributed_to_other_properties"] = other
    return events, mine


# ----------------------------------------------------------------------------- SignModel: the COSE_Sign life cycle as a state machine
SG_CONSTS = dict(Algs='{"A", "B"}', Keys='{"k1", "k2"}', Exts='{"none", "e1"}')
SG_PROPS = ["SG_Exact", "SG_SignAllOrError", "SG_NoEmptyOnWire", "SG_SignThenVerify", "SG_ReadOnly", "SG_Atomic"]
SG_INVS = ["SG_Positional", "SG_RoundTrip"]


def sg_stage(ctx, pid, light=False):
    """SignModel (owner: C11): model checking, behaviours replayed on a real SignMessage, trace validation; returns the events and the
    rejections that belong to property pid"""
    if pid == "C11":
        mc(ctx, "SignModel", cfgtext(invariants=SG_INVS, props=SG_PROPS, constants=dict(MaxHist=0, Record="FALSE", Scope='"core"', MaxLevel=0, **SG_CONSTS),
                                     extra="VIEW View\n"), timeout=1800, heap="8g")
        mc(ctx, "SignModel", cfgtext(invariants=SG_INVS, props=SG_PROPS, constants=dict(MaxHist=0, Record="FALSE", Scope='"all"', MaxLevel=4 if ctx.quick() else 6, **SG_CONSTS),
                                     extra="VIEW View\nCONSTRAINT LevelBound\n"), timeout=3000, heap="8g")
    n, depth = (1200, 10) if ctx.quick() else ((8000, 14) if pid == "C11" else (3000, 14))       # (20000 behaviours exhausted the sandbox's memory)
    consts = dict(Record="TRUE", Scope='"all"', MaxLevel=0, **SG_CONSTS)
    cases = []
    if not light:
        # every behaviour of length 2 over one algorithm and no external data, from four points of the life cycle (thorough: all constants from the start)
        small = dict(consts, Algs='{"A"}', Exts='{"none"}')
        for pfx, plen in ((0, 0), (1, 1), (2, 3), (3, 1)):
            cases += gen(ctx, "Gen_Sg", cfgtext(spec="GSpec", invariants=["Emit"], constants=dict(MaxHist=plen + 2, PrefixId=pfx, **small)), timeout=1200, heap="8g")
        if not ctx.quick():
            cases += gen(ctx, "Gen_Sg", cfgtext(spec="GSpec", invariants=["Emit"], constants=dict(MaxHist=2, PrefixId=0, **dict(consts, Exts='{"none"}'))), timeout=1200, heap="8g")
    cases += gen(ctx, "Gen_Sg", cfgtext(invariants=["Emit"], constants=dict(MaxHist=depth, PrefixId=0, **consts)), simulate=max(1, n // 50), depth=depth + 2, seed=ctx.seed, timeout=1200, heap="8g")
    events = harness(ctx, ["exec", "memflow"], cases)
    jc = "".join("CONSTANT %s = %s\n" % kv for kv in dict(MaxHist=0, Record="FALSE", Scope='"all"', MaxLevel=0, **SG_CONSTS).items())
    rej = judge(ctx, "Trace_Sg", events, per_shard=300, extra_cfg=jc)
    mine, other = {}, 0
    for idx, reasons in rej.items():
        r = [x for x in reasons if x.startswith(pid + ":") or x.startswith("infra-")]
        other += len(reasons) - len(r)
        if r:
            mine[idx] = r
    ctx.notes["signmodel_behaviours_replayed"] = len(events)
    ctx.notes["signmodel_rejections_attributed_to_other_properties"] = other
    return events, mine


def with_sg_model(ctx, pid, events, rejects, light=False):
    mev, mrej = sg_stage(ctx, pid, light)
    base = len(events)
    events = events + mev
    rejects = dict(rejects)
    for idx, r in mrej.items():
        rejects[base + idx] = r
    return events, rejects


# ----------------------------------------------------------------------------- EnvModel: the hash-envelope life cycle as a state machine
ENV_ALL = dict(Keys='{"k1", "k2"}', HVals='{"none", "s256", "s384", "unk", "bad"}', PctVals='{"none", "uint", "tstr", "bad"}', LocVals='{"none", "tstr", "bad"}',
               UVals='{"none", "kid", "u258", "u259", "u260", "u3"}', PayVals='{"l32", "l48", "l31", "nil"}')
ENV_SMALL = dict(Keys='{"k1"}', HVals='{"none", "s256", "unk", "bad"}', PctVals='{"none", "bad"}', LocVals='{"none"}', UVals='{"none", "kid", "u258"}', PayVals='{"l32", "l31", "nil"}')
ENV_PROPS = ["EV_OnlyConforming", "EV_Producer", "EV_RoundTrip", "EV_ReadOnly", "EV_Atomic", "EV_NoHalfSigned"]
ENV_INVS = ["EV_Agreement", "EV_UnprotectedIrrelevant", "EV_SpellingSigned"]


def env_stage(ctx, pid):
    """EnvModel (owner: C12): model checking to a bounded number of steps, behaviours replayed on a real Sign1Message through
    SignHashEnvelope / VerifyHashEnvelope and the ordinary COSE_Sign1 entry points, trace validation"""
    if pid == "C12":
        mc(ctx, "EnvModel", cfgtext(invariants=ENV_INVS, props=ENV_PROPS, constants=dict(MaxHist=0, Record="FALSE", MaxLevel=6 if ctx.quick() else 8, **ENV_SMALL),
                                    extra="VIEW View\nCONSTRAINT LevelBound\n"), timeout=3000, heap="8g")
    n, depth = (250, 9) if ctx.quick() else (3000, 12)          # TLC emits every prefix of a simulated trace: about 1 500 behaviours per 50 requested
    consts = dict(Record="TRUE", MaxLevel=0, **ENV_ALL)
    cases = []
    for pfx, plen in ((0, 0), (1, 1), (2, 2), (3, 2), (4, 3), (5, 4), (6, 3)):   # every single step from seven points of the life cycle
        cases += gen(ctx, "Gen_Env", cfgtext(spec="GSpec", invariants=["Emit"], constants=dict(MaxHist=plen + 1, PrefixId=pfx, **consts)), timeout=1200, heap="8g")
    if not ctx.quick():                                                # every pair of steps over the small constants
        cases += gen(ctx, "Gen_Env", cfgtext(spec="GSpec", invariants=["Emit"], constants=dict(MaxHist=3, PrefixId=1, Record="TRUE", MaxLevel=0, **ENV_SMALL)), timeout=1200, heap="8g")
    cases += gen(ctx, "Gen_Env", cfgtext(invariants=["Emit"], constants=dict(MaxHist=depth, PrefixId=0, **consts)), simulate=max(1, n // 50), depth=depth + 2, seed=ctx.seed, timeout=1200, heap="8g")
    events = harness(ctx, ["exec", "memflow"], cases)
    jc = "".join("CONSTANT %s = %s\n" % kv for kv in dict(MaxHist=0, Record="FALSE", MaxLevel=0, **ENV_ALL).items())
    rej = judge(ctx, "Trace_Env", events, per_shard=400, extra_cfg=jc)
    mine, other, impl = {}, 0, 0
    for idx, reasons in rej.items():
        r = [x for x in reasons if x.startswith(pid + ":") or x.startswith("infra-")]
        impl += len([x for x in reasons if x.startswith("impl:")])
        other += len(reasons) - len(r)
        if r:
            mine[idx] = r
    ctx.notes["envmodel_behaviours_replayed"] = len(events)
    ctx.notes["envmodel_rejections_attributed_to_other_properties"] = other
    ctx.notes["envmodel_drift_impl_level_differences"] = impl
    return events, mine


def with_env_model(ctx, pid, events, rejects):
    mev, mrej = env_stage(ctx, pid)
    base = len(events)
    events = events + mev
    rejects = dict(rejects)
    for idx, r in mrej.items():
        rejects[base + idx] = r
    return events, rejects


# ----------------------------------------------------------------------------- KeyModel: the COSE_Key life cycle as a state machine
KEY_PROPS = ["K_Permitted", "K_OwnSignatures", "K_ReadOnly", "K_Atomic"]
KEY_INVS = ["K_RoundTrip"]
KEY_ALL = '{"EC2", "OKP"}'


def key_stage(ctx, pid):
    """KeyModel (owner: C15): model checking, behaviours replayed on a real Key with real signatures, trace validation"""
    if pid == "C15":
        mc(ctx, "KeyModel", cfgtext(invariants=KEY_INVS, props=KEY_PROPS, constants=dict(MaxHist=0, Record="FALSE", Ktys='{"EC2"}' if ctx.quick() else KEY_ALL), extra="VIEW View\n"),
           timeout=3000, heap="8g")
    n, depth = (1500, 10) if ctx.quick() else (20000, 14)
    consts = dict(Record="TRUE", Ktys=KEY_ALL)
    cases = []
    for pfx, plen in ((0, 0), (1, 3), (2, 2), (3, 2)):
        cases += gen(ctx, "Gen_Key", cfgtext(spec="GSpec", invariants=["Emit"], constants=dict(MaxHist=plen + (2 if ctx.quick() else 3), PrefixId=pfx, **consts)), timeout=1200, heap="8g")
    cases += gen(ctx, "Gen_Key", cfgtext(invariants=["Emit"], constants=dict(MaxHist=depth, PrefixId=0, **consts)), simulate=max(1, n // 50), depth=depth + 2, seed=ctx.seed, timeout=1200, heap="8g")
    events = harness(ctx, ["exec", "memflow"], cases)
    jc = "".join("CONSTANT %s = %s\n" % kv for kv in dict(MaxHist=0, Record="FALSE", Ktys=KEY_ALL).items())
    rej = judge(ctx, "Trace_Key", events, per_shard=600, extra_cfg=jc)
    mine, other = {}, 0
    for idx, reasons in rej.items():
        r = [x for x in reasons if x.startswith(pid + ":") or x.startswith("infra-")]
        other += len(reasons) - len(r)
        if r:
            mine[idx] = r
    ctx.notes["keymodel_behaviours_replayed"] = len(events)
    ctx.notes["keymodel_rejections_attributed_to_other_properties"] = other
    return events, mine


def with_key_model(ctx, pid, events, rejects):
    mev, mrej = key_stage(ctx, pid)
    base = len(events)
    events = events + mev
    rejects = dict(rejects)
    for idx, r in mrej.items():
        rejects[base + idx] = r
    return events, rejects


def with_cs_model(ctx, pid, events, rejects, light=False):
    mev, mrej = cs_stage(ctx, pid, light)
    base = len(events)
    events = events + mev
    rejects = dict(rejects)
    for idx, r in mrej.items():
        rejects[base + idx] = r
    return events, rejects


def with_model(ctx, pid, events, rejects):
    mev, mrej = model_stage(ctx, pid)
    base = len(events)
    events = events + mev
    rejects = dict(rejects)
    for idx, r in mrej.items():
        rejects[base + idx] = r
    if pid in ("C03", "C04", "C09", "C19", "C20"):          # the countersignature life cycle has requirements of these properties too
        events, rejects = with_cs_model(ctx, pid, events, rejects, light=ctx.quick())
    if pid in ("C03", "C20"):                          # ... and so has the COSE_Sign life cycle
        events, rejects = with_sg_model(ctx, pid, events, rejects, light=ctx.quick())
    if pid in ("C03", "C09"):                          # ... and the hash-envelope life cycle (what reaches the key; the message handed out)
        events, rejects = with_env_model(ctx, pid, events, rejects)
    return events, rejects


# ----------------------------------------------------------------------------- C05
@prop("C05")
def c05(ctx):
    uniq = c05_cases_fwd(ctx)
    for d in harness(ctx, ["drive", "nopanic"]):
        uniq.append(dict(kind="any", base=0, d=0, bytes=d["bytes"], src="driver"))
    events = harness(ctx, ["exec", "C05"], uniq)
    rejects = judge(ctx, "Trace_C05", events)
    return report(ctx, events, rejects,
                  nontrivial=lambda e: any(e["acc"].values()),
                  key=lambda e: tuple(e["bytes"]),
                  rule="TLC enumerates every single and (tier-dependent) double structural mutation at every position of the CBOR tree of valid "
                       "COSE_Sign1/COSE_Sign/COSE_Signature base messages; a seeded byte-level mutation driver adds bit flips, edits, splices, truncations and "
                       "random bytes over a corpus of valid messages; each distinct byte string is offered to all five decoders of the real "
                       "library; non-trivial = at least one decoder accepted it (so well-formedness had to be established by the TLA+ parser)",
                  exhaustive=False)


def c05_cases_fwd(ctx):
    return c05_cases(ctx)


# ----------------------------------------------------------------------------- C13
ALL_SPELL = ["int", "int8", "int16", "int32", "int64", "uint", "uint8", "uint16", "uint32", "uint64"]


def hdrgrid_cases(ctx):
    if ctx.quick():
        consts = dict(Structs=tlaset(["prot", "unprot", "sign1", "signsig", "nested", "nested2"]), Spellings=tlaset(ALL_SPELL),
                      PairSpellings=tlaset(["int", "int8", "int64", "uint16", "uint64"]))
    else:
        consts = dict(Structs=tlaset(["prot", "unprot", "sign1", "sig", "sign", "signsig", "nested", "nested2"]), Spellings=tlaset(ALL_SPELL),
                      PairSpellings=tlaset(ALL_SPELL))
    return gen(ctx, "Gen_C13", cfgtext(invariants=["Emit"], constants=consts), timeout=3000, heap="8g")


@prop("C13")
def c13(ctx):
    cases = hdrgrid_cases(ctx)
    events = harness(ctx, ["exec", "hdrgrid"], cases)
    rejects = judge(ctx, "Trace_C13", events)
    return report(ctx, events, rejects,
                  nontrivial=lambda e: e["enc"] == "ok" or e["dec"] == "ok",
                  key=lambda e: (e["struct"], json.dumps(e["m"], sort_keys=True)),
                  rule="TLC enumerates the header grid (labels x value kinds x bucket x Go integer spelling; pair cells for IV/Partial IV, "
                       "crit/present label, duplicate labels under two Go types) embedded in every structure that has headers, and derives the wire "
                       "image of each; the real encoder is run on the in-memory value and the real decoder on the image; TLC judges every event; "
                       "non-trivial = accepted in at least one direction",
                  exhaustive=True)


# ----------------------------------------------------------------------------- C08
@prop("C08")
def c08(ctx):
    structs = ["prot", "unprot", "sign1P", "sign1U", "sign1uP", "sigP", "csigU", "signP", "signsig"]
    big = gen(ctx, "Gen_C08", cfgtext(invariants=["Emit"], constants=dict(MaxEntries=1, Structs=tlaset(["sign1Big", "signBig", "manyP", "manyU", "manysigs"]))), timeout=600, heap="8g")
    consts = dict(MaxEntries=3 if ctx.quick() else 5, Structs=tlaset(structs))
    cases = gen(ctx, "Gen_C08", cfgtext(invariants=["ImageDeterministic", "Emit"], constants=consts), timeout=3000, heap="8g")
    cases += big + hdrgrid_cases(ctx)
    events = harness(ctx, ["exec", "hdrgrid"], cases)
    # a second process: Go seeds map iteration per process
    ev2 = harness(ctx, ["exec", "hdrgrid"], cases)
    for a, b in zip(events, ev2):
        a["out2"] = b["out"]
    rejects = judge(ctx, "Trace_C08", events)
    # sequences (encode, edit, encode again) and hash-envelope helper outputs (incl. caller-supplied raw buckets)
    seq = gen(ctx, "Gen_C08Seq", cfgtext(invariants=["Emit"]), timeout=600)
    henv = [c for c in gen(ctx, "Gen_C12", cfgtext(invariants=["Emit"], constants=dict(Spellings=tlaset(["int64"]))), timeout=1200, heap="8g") if c["side"] == "producer"]
    if ctx.quick():
        henv = [c for c in henv if c.get("rawP") or c.get("rawU") or c["hp"]["alg"] == -16][:4000]
    henv = henv + reentrant(henv[::4])
    sev = harness(ctx, ["exec", "memflow"], seq + henv)
    srej = judge(ctx, "Trace_C08Seq", sev)
    base = len(events)
    events = events + sev
    for i, r in srej.items():
        rejects[base + i] = r
    # keys: the same COSE_Key always encodes to the same deterministic bytes, which the key decoder accepts and re-encodes identically
    kcases = gen(ctx, "Gen_C14", cfgtext(invariants=["Emit"], constants=dict(ToySize=1)), timeout=1200, heap="8g") + harness(ctx, ["drive", "keyrt"])
    kev = harness(ctx, ["exec", "keyrt"], kcases)
    mine = ("conversion-step-fails-UnmarshalCBOR", "conversion-step-fails-MarshalCBOR", "key-encoding-not-reproducible", "serialised-key-not-deterministic-cbor",
            "decoded-key-does-not-reencode-to-the-same-bytes", "serialised-key-is-not-a-cbor-map")
    base = len(events)
    events = events + kev
    for i, r in judge(ctx, "Trace_C14", kev).items():
        r = [x for x in r if x in mine]
        if r:
            rejects[base + i] = r
    return report(ctx, events, rejects,
                  nontrivial=lambda e: e.get("enc") == "ok" or "steps" in e or e.get("stage") == "done",
                  key=lambda e: json.dumps(e["steps"]) if "steps" in e else (e["curve"], tuple(e["d"]), json.dumps(e["extras"], sort_keys=True)) if "curve" in e else (e["struct"], json.dumps(e["m"], sort_keys=True)),
                  rule="TLC enumerates multi-entry header buckets (subsets of a pool whose bytewise key order disagrees with insertion order, "
                       "mixed Go integer spellings, nested maps/arrays, countersignature values) and the C13 header grid, embedded in every "
                       "structure; the real encoder runs 6 times in each of 2 processes; TLC judges: bytes identical, equal to the specification's "
                       "canonical image, deterministic CBOR (also inside protected bstrs), decodable, decoded value has the same image; "
                       "non-trivial = encoder accepted the value",
                  exhaustive=True)


# ----------------------------------------------------------------------------- wire-side flow: C07, C02, C09, C03
def tlanums(xs):
    return "{" + ", ".join(str(x) for x in xs) + "}"


def wire_cases(ctx, mode, algs, depth, bases, inv=("Emit",), mutdepth=1):
    consts = dict(AlgNs=tlanums(algs), Depth=depth, BaseIds=tlanums(bases), Mode='"%s"' % mode, MutDepth=mutdepth)
    return gen(ctx, "Gen_Wire", cfgtext(invariants=list(inv), constants=consts), timeout=3000, heap="8g")


def wire_respell_cases(ctx):
    cases = []
    if ctx.quick():
        cases += wire_cases(ctx, "respell", [7], 1, list(range(1, 18)) + [20, 21, 22, 23], inv=("StaysConforming", "SizedBaseOK", "Emit"))
        cases += wire_cases(ctx, "respell", [6, 36], 1, [1, 6], inv=("StaysConforming", "Emit"))
        cases += wire_cases(ctx, "respell", [7], 2, [1, 4, 5, 7, 8, 17], inv=("StaysConforming", "Emit"))
    else:
        cases += wire_cases(ctx, "respell", [6, 7, 34, 35, 36, 37, 38], 1, list(range(1, 18)) + [20, 21, 22, 23], inv=("StaysConforming", "SizedBaseOK", "Emit"))
        cases += wire_cases(ctx, "respell", [7], 2, list(range(1, 11)) + [15, 16, 17], inv=("StaysConforming", "Emit"))
    seen, out = set(), []
    for c in cases:
        k = (c["kind"], tuple(c["wire"]), tuple(c["ext"]))
        if k not in seen:
            seen.add(k)
            out.append(c)
    return out


def wire_prop(ctx, pid, cases, rule, nontrivial):
    events = harness(ctx, ["exec", "wireflow"], cases)
    rejects = judge(ctx, "Trace_Wire", events, extra_cfg='CONSTANT Prop = "%s"\n' % pid, per_shard=1500)
    if pid == "C09":
        events, rejects = with_model(ctx, pid, events, rejects)
    nt = (lambda e: True) if pid == "C09" else nontrivial
    return report(ctx, events, rejects, nontrivial=lambda e: "acts" in e or nt(e),
                  key=lambda e: json.dumps(e["acts"]) if "acts" in e else (e["kind"], tuple(e["wire"]), tuple(e["ext"])), rule=rule + MODEL_RULE if pid == "C09" else rule, exhaustive=True)


MODEL_RULE = (" Additionally the life-cycle model CoseModel.tla (sign / verify / serialise / parse / caller edits / bytes rewritten in transit, symbolic keys and "
              "signatures) is model-checked exhaustively for its properties, and behaviours generated from it by TLC (all of length 2, random longer ones) are "
              "replayed on a real Sign1Message and validated step by step against the model's transition function.")
WIRE_RULE = ("TLC enumerates conforming COSE_Sign1 (tagged/untagged, attached/detached, with/without alg + external data), COSE_Sign (1-2 signers) and "
             "standalone COSE_Signature messages with nested countersignatures, and every encoder choice inside them (each head at each legal width, map "
             "key orders, h''/h'a0', all-at-once variants; pairs per tier); the specification computes each signer's Sig_structure from the wire bytes; "
             "the harness signs it with the Go standard library, installs the signature and runs the real decoder/verifier/encoder; TLC validates every event. ")


@prop("C07")
def c07(ctx):
    return wire_prop(ctx, "C07", wire_respell_cases(ctx), WIRE_RULE + "non-trivial = message is Conforming per the specification", lambda e: True)


@prop("C02")
def c02(ctx):
    # calibration of the specification's own Sig_structure builders and parser against third-party bytes (gluecose vectors, RFC 9338 literals)
    mc(ctx, "Vectors", cfgtext(), workers=1, timeout=300)
    # wire side (decoded messages, every encoder choice) ...
    events = harness(ctx, ["exec", "wireflow"], wire_respell_cases(ctx))
    rejects = judge(ctx, "Trace_Wire", events, extra_cfg='CONSTANT Prop = "C02"\n', per_shard=1500)
    # ... and memory side (constructed messages, size classes up to 65536 bytes)
    sizes = [23, 24, 255, 256, 32767, 32768, 65535, 65536] if not ctx.quick() else [23, 255, 256, 32768, 65535, 65536]
    mem = gen(ctx, "Gen_C02Mem", cfgtext(invariants=["Emit"], constants=dict(Sizes=tlanums(sizes))), timeout=1200, heap="8g")
    mem = mem + reentrant([c for c in mem if c["pn"] <= 256 and c["en"] <= 256])
    mev = harness(ctx, ["exec", "memflow"], mem)
    mrej = judge(ctx, "Trace_C02Mem", mev, per_shard=40, heap="6g")
    base = len(events)
    events = events + mev
    for i, r in mrej.items():
        rejects[base + i] = r
    # ... and sequences: behaviours of the life-cycle model (sign / verify again after caller edits), every key input compared with the structure
    events, rejects = with_model(ctx, "C02", events, rejects)
    return report(ctx, events, rejects, nontrivial=lambda e: len(e.get("spy", [])) > 0 or "steps" in e,
                  key=lambda e: json.dumps(e["acts"]) if "acts" in e else json.dumps([e["kind"], e["pn"], e["en"], e["steps"][0], e.get("reenter")]) if "steps" in e else (e["kind"], tuple(e["wire"]), tuple(e["ext"])),
                  rule=WIRE_RULE + "Memory side: TLC enumerates constructed Sign1 / untagged / COSE_Sign (2 signers) / Signature messages x header shapes (alg omitted, "
                       "typed variants, protected maps of 23/24/255/256 bytes) x payload and external-data lengths up to 65536; recording signers and verifiers "
                       "capture their input at signing and after a wire round trip; TLC compares each with the Sig_structure built from the object's state. "
                       "non-trivial = a key callback input was recorded and compared",
                  exhaustive=True)


@prop("C03")
def c03(ctx):
    cases = []
    if ctx.quick():
        cases += wire_cases(ctx, "mut", [7], 0, list(range(1, 9)) + [13, 14, 18])      # 13/14/18: payload / external data of 255, 256 bytes
        cases += wire_cases(ctx, "mut", [6, 36], 0, [1, 6])
        cases += wire_cases(ctx, "mut", [7], 1, [1])
    else:
        cases += wire_cases(ctx, "mut", [6, 7, 34, 35, 36], 0, range(1, 11))
        cases += wire_cases(ctx, "mut", [7, 36], 0, [13, 14, 18])           # (base 19, a 65535-byte payload, makes trace lines that TLC's JSON reader refuses; C02 covers that size)
        cases += wire_cases(ctx, "mut", [7], 1, [1, 4, 5, 6, 8])
        cases += wire_cases(ctx, "mut", [7], 0, [1], mutdepth=2)           # pairs of edits: about 0.6 M cases per base (four bases exhausted the sandbox's memory)
    seen, out = set(), []
    for c in cases:
        k = (c["kind"], tuple(c["wire"]), tuple(c["ext"]), c["sigop"], c["alt"])
        if k not in seen:
            seen.add(k)
            out.append(c)
    events = harness(ctx, ["exec", "wireflow"], out)
    rejects = judge(ctx, "Trace_Wire", events, extra_cfg='CONSTANT Prop = "C03"\n', per_shard=1500)
    events, rejects = with_model(ctx, "C03", events, rejects)
    return report(ctx, events, rejects, nontrivial=lambda e: e.get("dec") == "ok" or "acts" in e,
                  key=lambda e: json.dumps(e["acts"]) if "acts" in e else (e["kind"], tuple(e["wire"]), tuple(e["ext"]), e["sigop"], e["alt"]),
                  rule="TLC enumerates validly signed messages of every kind and every single (per tier: double) edit of them: structural mutation at "
                       "every tree position, whole-message edits, signature-length changes, in-place signature corruption, signatures made over other "
                       "external data / payload / context / signer / key, verification under other external data; the real decoder and built-in verifier "
                       "run on each; the standard library computes cryptoValid over the Sig_structure the specification derives from the received bytes; "
                       "TLC judges verify = nil <=> prechecks and cryptoValid for every signer; non-trivial = message decoded, so a verdict was judged",
                  exhaustive=True)


@prop("C09")
def c09(ctx):
    return wire_prop(ctx, "C09", wire_respell_cases(ctx), WIRE_RULE + "non-trivial = decoded, re-encoded and compared with ReencodePrediction",
                     lambda e: e.get("reenc") == "ok")


# ----------------------------------------------------------------------------- C04
@prop("C04")
def c04(ctx):
    structs = ["sign1", "sign1u", "sig", "csig", "sign1helper", "sign1untaggedhelper"]
    spell = ["int", "int8", "int64", "uint8", "uint64"] if ctx.quick() else ALL_SPELL
    consts = dict(LabelSpellings=tlaset(spell), Structs=tlaset(structs))
    cases = gen(ctx, "Gen_C04", cfgtext(invariants=["Emit"], constants=consts), timeout=3000, heap="8g")
    events = harness(ctx, ["exec", "memflow"], cases)
    rejects = judge(ctx, "Trace_C04", events)
    events, rejects = with_model(ctx, "C04", events, rejects)
    return report(ctx, events, rejects,
                  nontrivial=lambda e: True,
                  key=lambda e: json.dumps(e["acts"]) if "acts" in e else json.dumps([e["struct"], e["flow"], e.get("pre"), e.get("ua"), e["P"], e["alg"], e["steps"][-1].get("extnil"), e["ext"]]),
                  rule="TLC enumerates the algorithm grid: structure (Sign1, untagged, Signature, Countersignature, Sign1/Sign1Untagged helpers) x flow "
                       "(sign+marshal, verify constructed, verify decoded) x header alg (absent, 10 integers incl. int64 min/max under 8 Go value types, "
                       "text, bstr, array, nil, uint64 2^64-7) x Go spelling of the label x signer/verifier algorithm (-7, -36, private-use -65537 and 5, "
                       "from custom implementations) x external data (nil, empty, non-empty); programs run on the real API with recording signers and "
                       "verifiers; TLC judges every program; every case is non-trivial (a verdict on key invocation is always judged)",
                  exhaustive=True)


# ----------------------------------------------------------------------------- C01
ALL_FLOWS = ["msg", "detached", "helper", "sign", "sigalone", "cs", "cs0", "cslist"]


def c01_cases(ctx):
    cases = []
    def g(algs, flows, ns, hs):
        consts = dict(AlgNs=tlanums([-1 - a for a in algs]), Flows=tlaset(flows), PayloadNs=tlanums(ns), HdrIds=tlanums(hs))
        return gen(ctx, "Gen_C01", cfgtext(invariants=["Emit"], constants=consts), timeout=3000, heap="8g")
    if ctx.quick():
        cases += g([-7, -8], ALL_FLOWS, [0, 1, 24, 256], [1, 2, 3, 4])
        cases += g([-7], ["msg", "helper", "sign", "cs"], [1], [7, 9, 10])
        cases += g([-7, -8], ["msg", "detached", "helper", "sigalone"], [1], [8])
        cases += g([-7], ["msg", "detached", "helper"], [23, 255, 65535, 65536], [2, 5, 6])
        cases += g([-35, -36, -37, -38, -39], ["msg", "sign", "cs", "cs0", "cslist"], [2], [1, 4])
    else:
        cases += g([-7, -8, -35, -36], ALL_FLOWS, [0, 1, 23, 24, 255, 256], [1, 2, 3, 4, 5, 6, 7, 8, 9, 10])
        cases += g([-37, -38, -39], ALL_FLOWS, [0, 24, 256], [1, 2, 4])
        cases += g([-7, -8, -37], ["msg", "detached", "helper", "sign"], [65535, 65536], [2, 5, 6])
    return cases


@prop("C01")
def c01(ctx):
    cases = c01_cases(ctx)
    events = harness(ctx, ["exec", "memflow"], cases)
    slim = [dict(flow=e["flow"], kind=e["kind"], alg=e["alg"], kk=e["kk"], h=e["h"], n=e["n"],
                 obs=[dict(op=o["op"], res=o["res"]) for o in e["obs"]]) for e in events]
    rejects = judge(ctx, "Trace_C01", slim)
    return report(ctx, events, rejects,
                  nontrivial=lambda e: any(o["op"] in ("sign", "countersign", "countersign0", "sign1helper", "sign1untaggedhelper") and o["res"] == "ok" for o in e["obs"]),
                  key=lambda e: json.dumps([e["flow"], e["kind"], e["alg"], e["kk"], e["h"], e["n"], [o["op"] for o in e["obs"]]]) + str(id(e)),
                  rule="TLC enumerates happy-path programs: flow (Sign1 method / detached payload / Sign1 helpers / COSE_Sign with 1-3 signers / standalone "
                       "Signature / full and abbreviated countersignature over each of the 4 parent kinds in pointer and value form, standalone, nested "
                       "in the parent, and over the decoded parent) x algorithm x key provenance (native, rebuilt from COSE_Key, opaque crypto.Signer) x "
                       "header shape (incl. alg omitted, 255/256-byte protected maps, nested values) x payload size class (0..65536) x external data "
                       "(nil/empty/non-empty); run with real fixture keys; TLC judges every step; non-trivial = the first signing step succeeded",
                  exhaustive=True)


# ----------------------------------------------------------------------------- C20
@prop("C20")
def c20(ctx):
    consts = dict(MaxSigners=4 if ctx.quick() else 5)
    cases = gen(ctx, "Gen_C20", cfgtext(invariants=["Emit"], constants=consts), timeout=3000, heap="8g")
    events = harness(ctx, ["exec", "memflow"], cases)
    rejects = judge(ctx, "Trace_C20", events)
    events, rejects = with_model(ctx, "C20", events, rejects)
    return report(ctx, events, rejects,
                  nontrivial=lambda e: "acts" in e or any(f != "" for f in e["fs"]) or e["flow"] == "entropy",
                  key=lambda e: json.dumps(e["acts"]) if "acts" in e else json.dumps([e["flow"], e["shape"], e["fs"], e["steps"][-1].get("rand"), [s.get("signers", [{}])[-1].get("alg") for s in e["steps"] if "signers" in s]]),
                  rule="TLC enumerates every fault vector over {ok, error, empty signature, nil signature, bytes+error} for the signer calls of Sign1Message.Sign "
                       "(tagged/untagged), the Sign1 helpers, SignMessage.Sign (1..n signers), Signature.Sign, Countersignature.Sign, Countersign0 and "
                       "SignHashEnvelope, each followed by serialisation; every vector over {answers, error} for the verifier calls of the matching Verify; "
                       "built-in ES256/ES512/PS256/EdDSA signers with entropy sources failing at once / after k bytes / short-reading; non-trivial = at "
                       "least one fault injected",
                  exhaustive=True)


# ----------------------------------------------------------------------------- C11
@prop("C11")
def c11(ctx):
    consts = dict(MaxN=4 if ctx.quick() else 6)
    cases = gen(ctx, "Gen_C11", cfgtext(invariants=["Emit"], constants=consts), timeout=3000, heap="8g")
    # keys that use the library's COSE_Sign path themselves before they look at their input (intact messages, matching verifiers)
    cases += reentrant([c for c in cases if c["flow"] == "verify" and c["n"] > 0 and all(x == "" for x in c["c"]) and c["vl"] == list(range(1, c["n"] + 1))])
    # the programs with panicking keys run in a process of their own: a panic in a goroutine that the library started cannot be contained,
    # and must not take the other observations with it (those programs are then inconclusive)
    pan = [c for c in cases if c["flow"] == "panickey"]
    events = harness(ctx, ["exec", "memflow"], [c for c in cases if c["flow"] != "panickey"])
    try:
        events += harness(ctx, ["exec", "memflow"], pan)
    except Infra as ex:
        ctx.notes["panicking_key_programs_aborted_the_process"] = str(ex)[:300]
        events += [dict(c, op="memflow", crashed=True, obs=[]) for c in pan]
    rejects = judge(ctx, "Trace_C11", events)
    events, rejects = with_sg_model(ctx, "C11", events, rejects)
    return report(ctx, events, rejects,
                  nontrivial=lambda e: "acts" in e or e["n"] > 0,
                  key=lambda e: json.dumps(e["acts"]) if "acts" in e else json.dumps([e["flow"], e["n"], e.get("dec"), e.get("vl"), e.get("c"), e.get("hole"), e.get("j"), e.get("what"), e.get("nc"), e.get("pos"), e.get("reenter")]),
                  rule="TLC enumerates COSE_Sign programs: n = 0..N signers of three algorithm families, signing, serialisation, optional wire round trip, "
                       "every subset of slots corrupted (garbage / emptied / overwritten with another slot's signature), verification with every permutation "
                       "class of verifiers and counts n-1, n, n+1; wire images with zero or empty signatures; symbolic signers/verifiers record every call; TLC "
                       "judges call order, inputs (each signer's own Sig_structure), early stop and the overall verdict; non-trivial = n > 0",
                  exhaustive=True)


# ----------------------------------------------------------------------------- C10
@prop("C10")
def c10(ctx):
    mc(ctx, "Vectors", cfgtext(), workers=1, timeout=300)      # CountersignStructure pinned to the RFC 9338 to-be-signed literals
    cases = gen(ctx, "Gen_C10", cfgtext(invariants=["Emit"], constants=dict(Deep="TRUE", DeepWidths="{0, 4}" if ctx.quick() else "{0, 1, 2, 4, 8}")), timeout=3000, heap="8g")
    cases = cases + reentrant([c for c in cases if c["flow"] == "bind"])     # (the list flow has keys named k1..kn; all others one key)
    events = harness(ctx, ["exec", "memflow"], cases)
    rejects = judge(ctx, "Trace_C10", events)
    events, rejects = with_cs_model(ctx, "C10", events, rejects)
    return report(ctx, events, rejects,
                  nontrivial=lambda e: True,
                  key=lambda e: json.dumps(e["acts"]) if "acts" in e else json.dumps([e["flow"], e.get("pk"), e.get("form"), e.get("abbr"), e.get("dec"), e["ext"], e.get("mu"), e.get("why"), e.get("r"),
                                            e["steps"][-1].get("extnil"), e.get("reenter"), e.get("label"), e.get("n")]),
                  rule="TLC enumerates countersignature programs: 4 parent kinds x pointer/value x full/abbreviated x constructed/decoded parent (decoded from a "
                       "wire image with a non-minimal protected length prefix) x external data (nil/empty/non-empty) x one mutation of the parent (none, payload, "
                       "signature, protected bucket, unprotected bucket, detaching); unsigned / payload-less parents; four replay attempts across kinds and "
                       "forms; symbolic signer/verifier record their input; TLC judges inputs against CountersignStructure (RFC 9338) and the verdicts",
                  exhaustive=True)


def reentrant(cases):
    """the same programs with keys that use the library themselves (every signing / verifying entry point, on values of their own)
    before they look at their input: whatever the library hands to a key must not be disturbed by other calls"""
    out = []
    for c in cases:
        d = copy.deepcopy(c)
        hit = False
        for st in d.get("steps", []):
            for k in ("signers", "verifiers"):
                for s in st.get(k, []) or []:
                    if s.get("kind") == "sym" and s.get("fault") == "":
                        s["fault"] = "reenter"
                        hit = True
        if hit:
            d["reenter"] = True
            out.append(d)
    return out


def sessions(ctx, cases, size=150):
    """history independence: the same cases run again in sessions (one world, one verifier value per description, the library's
    process state shared), in the given order; every case yields an event of its own that the same judge must accept"""
    if not hasattr(ctx, "packs"):
        ctx.packs = []
    base = len(ctx.packs)
    packs = [dict(session=cases[i:i + size]) for i in range(0, len(cases), size)]
    ctx.packs.extend(packs)
    out = []
    for k, ev in enumerate(harness(ctx, ["exec", "memflow-session"], packs)):
        for pos, e in enumerate(ev["events"]):
            e["sess"] = [base + k, pos]
            out.append(e)
    return out


# ----------------------------------------------------------------------------- C12
@prop("C12")
def c12(ctx):
    if os.environ.get("VERIF_STAGE") == "env":         # debugging aid: the life-cycle stage alone
        events, rejects = with_env_model(ctx, "C12", [], {})
        return report(ctx, events, rejects, nontrivial=lambda e: True, key=lambda e: json.dumps(e["acts"]), rule="EnvModel stage alone (debugging aid)", exhaustive=False)
    spell = ["int64", "int", "uint16"] if ctx.quick() else ["int64", "int", "int16", "int32", "uint", "uint16", "uint32", "uint64"]
    cases = gen(ctx, "Gen_C12", cfgtext(invariants=["Emit"], constants=dict(Spellings=tlaset(spell))), timeout=3000, heap="8g")
    events = harness(ctx, ["exec", "memflow"], cases)
    # the verdict on an envelope must not depend on what was verified before (same verifier, same process): the consumer grid again,
    # grouped by signed content, accepted variants first; and in the opposite order
    cons = [c for c in cases if c["side"] == "consumer"]
    cons.sort(key=lambda c: (json.dumps(c["P"]), c["n"], len(c["U"]), json.dumps(c["U"])))
    for order in (cons, cons[::-1]):
        events.extend(sessions(ctx, order))
    # the producer must not carry anything over from one call to the next either (refused calls followed by accepted ones and vice versa)
    prod = [c for c in cases if c["side"] == "producer"]
    if ctx.quick():
        prod = prod[::3]
    for order in (prod, prod[::-1]):
        events.extend(sessions(ctx, order, size=60))
    rejects = judge(ctx, "Trace_C12", events)
    events, rejects = with_env_model(ctx, "C12", events, rejects)
    return report(ctx, events, rejects,
                  nontrivial=lambda e: True if "acts" in e else (e["obs"][0]["res"] == "ok" if e["side"] == "producer" else e["obs"][2]["res"] == "ok"),
                  key=lambda e: json.dumps(e["acts"]) if "acts" in e else json.dumps([e["side"], e["P"], e["U"], e.get("rawP"), e.get("rawU"), e.get("hp"), e.get("n")]),   # a session re-run is the same case
                  rule="TLC enumerates the producer grid (base header entries 1/3/4/99/258/259/260/\"x\" in either bucket under several Go spellings, caller-supplied "
                       "raw buckets, hash algorithms SHA-256/384/512 and unknown ids, digest lengths 0/size-1/size/size+1, preimage content type absent/uint/tstr/"
                       "wrongly typed, location) and the consumer grid (validly signed COSE_Sign1 with every combination of governed labels, value types and "
                       "digest lengths in either bucket); SignHashEnvelope/VerifyHashEnvelope run on the real API; TLC judges the produced bytes, the returned "
                       "values, the caller's maps and every acceptance; non-trivial = an envelope was produced / a signed message reached VerifyHashEnvelope. "
                       "EnvModel stage: the hash-envelope life cycle as a state machine (produce, consume, decode, verify, holder edits, re-sign, serialise, bytes "
                       "rewritten in transit incl. a non-deterministic spelling of the protected map) is model-checked to a bounded number of steps; every single "
                       "step from four points of the life cycle and seeded random behaviours are replayed on the real API and validated step by step by Trace_Env "
                       "(incl. every byte string handed to a key against the Sig_structure of the received bytes)",
                  exhaustive=True)


# ----------------------------------------------------------------------------- C15
def keydec_cases(ctx):
    cases = gen(ctx, "Gen_C15", cfgtext(invariants=["BasesOK", "Emit"], constants=dict(Depth=1, TreeMut="TRUE")), timeout=3000, heap="8g")
    cases += gen(ctx, "Gen_C15", cfgtext(invariants=["Emit"], constants=dict(Depth=2 if ctx.quick() else 3, TreeMut="FALSE")), timeout=3000, heap="12g")
    seen, out = set(), []
    for c in cases:
        k = tuple(c["bytes"])
        if k not in seen:
            seen.add(k)
            c["src"] = "tlc"
            out.append(c)
    return out


@prop("C15")
def c15(ctx):
    cases = keydec_cases(ctx)
    events = harness(ctx, ["exec", "keydec"], cases)
    rejects = judge(ctx, "Trace_C15", events)
    events, rejects = with_key_model(ctx, "C15", events, rejects)
    return report(ctx, events, rejects,
                  nontrivial=lambda e: "acts" in e or e["acc"],
                  key=lambda e: json.dumps(e["acts"]) if "acts" in e else tuple(e["bytes"]),
                  rule="TLC enumerates COSE_Key maps: 7 valid base keys (EC2 P-256/384/521 private/public, OKP Ed25519 private/public, symmetric, custom kty) and every "
                       "change of one/two (thorough: three) of the dimensions kty, crv, alg, key_ops, x, y, d, extra labels to every other value kind and length "
                       "class (0, size-1, size, size+1), plus every structural CBOR mutation of each base tree; Key.UnmarshalCBOR and everything reachable from an "
                       "accepted key (re-encode twice, Signer, Verifier, PrivateKey, PublicKey, sign+verify) run on the real API; TLC judges every event; "
                       "non-trivial = the key was accepted",
                  exhaustive=True)


# ----------------------------------------------------------------------------- C14
@prop("C14")
def c14(ctx):
    cases = gen(ctx, "Gen_C14", cfgtext(invariants=["FullWidth", "RoundTrip", "Emit"], constants=dict(ToySize=2)), timeout=3000, heap="8g")
    cases += harness(ctx, ["drive", "keyrt"])
    events = harness(ctx, ["exec", "keyrt"], cases)
    rejects = judge(ctx, "Trace_C14", events)
    events, rejects = with_key_model(ctx, "C14", events, rejects)
    short = lambda e: "acts" not in e and e["curve"] != "ed" and e["stage"] == "done" and (len(e["x"]) < {"p256": 32, "p384": 48, "p521": 66}[e["curve"]] or len(e["y"]) < {"p256": 32, "p384": 48, "p521": 66}[e["curve"]])
    ctx.notes["keys_with_short_coordinate"] = sum(1 for e in events if short(e))
    return report(ctx, events, rejects,
                  nontrivial=lambda e: "acts" in e or e["stage"] == "done",
                  key=lambda e: json.dumps(e["acts"]) if "acts" in e else (e["curve"], tuple(e["d"]), json.dumps(e["extras"], sort_keys=True)),
                  rule="TLC checks the conversion design (Go big.Int trims leading zeros, encoder pads x/y to the field size, decoder reads back) for every "
                       "coordinate value of a 2-byte toy field, and enumerates every fixture key (3 curves x leading-zero classes of x, y, d incl. 1- and 2-byte "
                       "short coordinates and tiny scalars, Ed25519) x optional parameters; a seeded driver adds random and small scalars (about 1 in 128 keys has "
                       "a short coordinate, counted in keys_with_short_coordinate); each key goes through the real NewKeyFrom*/Marshal/Unmarshal/PrivateKey/"
                       "PublicKey/Signer/Verifier; TLC parses the serialised keys and judges widths, values, round trip and signature acceptance",
                  exhaustive=False)


# ----------------------------------------------------------------------------- C17
@prop("C17")
def c17(ctx):
    lens = [0, 1, 55, 56, 64, 119, 1000] if ctx.quick() else list(range(0, 9)) + [55, 56, 57, 63, 64, 65, 111, 112, 113, 119, 120, 127, 128, 129, 1000, 4096, 65536]
    cases = gen(ctx, "Gen_C17", cfgtext(invariants=["Emit"], constants=dict(MsgLens=tlanums(lens))), timeout=3000)
    fac = [c for c in cases if c["what"] == "factory"]
    dig = [c for c in cases if c["what"] == "digest"]
    if ctx.quick():
        dig = [c for c in dig if c["msglen"] in (0, 56, 1000) or c["alg"] in (-7, -37)]
    # the factory matrix is run twice in one process, serially: a verdict must not depend on what was constructed before
    facseq = fac + list(reversed(fac)) + fac
    fev = harness(ctx, ["exec", "factory"], facseq, env=dict(VERIF_SERIAL="1"))
    ctx.packs = [dict(session=facseq, op="factory")]          # a factory verdict is replayed with everything that was constructed before it
    for i, e in enumerate(fev):
        e["sess"] = [0, i]
    events = fev + harness(ctx, ["exec", "digest"], dig)
    rejects = judge(ctx, "Trace_C17", events)
    return report(ctx, events, rejects,
                  nontrivial=lambda e: True,
                  key=lambda e: json.dumps({k: v for k, v in e.items() if k not in ("res", "reported", "nilresult", "sign", "verify", "stdv", "panic", "sess")}, sort_keys=True),
                  rule="(factory matrix executed three times in one process, forwards, backwards, forwards, so that verdicts cannot depend on earlier calls) TLC enumerates the full factory matrix (7 built-in + 3 RS* + reserved + unknown + private-use + hash algorithm ids x 14 signer key kinds / 15 "
                       "public-key kinds: RSA 1024/2047/2048/3072, ECDSA P-224/256/384/521, off-curve and infinity points, value-typed keys, Ed25519, opaque and "
                       "foreign crypto.Signers) and the digest-equivalence space (6 algorithms x message lengths x Sign/SignDigest x Verify/VerifyDigest x every "
                       "hash x native/opaque key); the real factories and entry points run; TLC compares with the decision tables of CoseCrypto.tla",
                  exhaustive=True)


# ----------------------------------------------------------------------------- C16
@prop("C16")
def c16(ctx):
    nn, seeds = (150, [ctx.seed]) if ctx.quick() else (15000, [ctx.seed + i for i in range(24)])
    cases = gen(ctx, "Gen_C16", cfgtext(invariants=["RenderOK", "Emit"], constants=dict(NativeN=nn, Seeds=tlanums(seeds))), timeout=3000)
    events = []
    for op in ("ecdsa-render", "ecdsa-native", "ecdsa-accept"):
        events += harness(ctx, ["exec", op], [c for c in cases if c["what"] == op])
    rejects = judge(ctx, "Trace_C16", events)
    n = {"p256": 32, "p384": 48, "p521": 66}
    ctx.notes["native_signatures_with_a_short_half"] = sum(1 for e in events if e["op"] == "ecdsa-native" and e["res"] == "ok" and
                                                           (e["out"][0] == 0 or e["out"][n[e["curve"]]] == 0))
    return report(ctx, events, rejects,
                  nontrivial=lambda e: e["res"] in ("ok", "ErrVerification"),
                  key=lambda e: json.dumps({k: v for k, v in e.items() if k not in ("out", "res", "stdv", "ver", "sig", "exactvalid")}, sort_keys=True),
                  rule="TLC enumerates (1) ASN.1 (r, s) pairs of every length class (full, 1 or 2 leading zero bytes, half, 2 bytes, value 1, order-1) and out-of-range "
                       "r (zero, negative, too long) for the crypto.Signer path, under every ES algorithm for every curve; (2) native and opaque signing of N "
                       "messages per curve (count of signatures with a leading-zero half reported); (3) genuinely valid (r, s) of classes normal / short r / short "
                       "s (found by seeded search) offered to the built-in verifier in 19 renderings; TLC judges widths, bytes and verdicts against RenderRS",
                  exhaustive=True)


# ----------------------------------------------------------------------------- C19
@prop("C19")
def c19(ctx):
    kinds = ["sign1", "sign1u", "sign", "sig", "csig", "prot", "unprot"]
    consts = dict(MaxLen=3 if ctx.quick() else 4, DecKinds=tlaset(kinds))
    cases = gen(ctx, "Gen_C19", cfgtext(invariants=["ImagesAsIntended", "Emit"], constants=consts), timeout=3000, heap="8g")
    if not ctx.quick():
        cases += gen(ctx, "Gen_C19", cfgtext(invariants=["Emit"], constants=dict(MaxLen=5, DecKinds=tlaset(["sign", "sign1"]))), timeout=3000, heap="12g")
    events = harness(ctx, ["exec", "memflow"], cases, env=dict(VERIF_SERIAL="1", VERIF_NORECV="1"))
    rejects = judge(ctx, "Trace_C19", events, per_shard=600)
    events, rejects = with_model(ctx, "C19", events, rejects)
    return report(ctx, events, rejects,
                  nontrivial=lambda e: sum(1 for o in e["obs"] if o["op"] == "unmarshal") >= 1,
                  key=lambda e: json.dumps(e["acts"]) if "acts" in e else (e["kind"], tuple(e["h"])),
                  rule="TLC enumerates every history of the given length over the alphabet {decode valid A, decode valid B (other shape: nil payload, 3 signatures, "
                       "nested countersignatures), decode failing early / in the middle / late, overwrite the last input buffer, serialise, overwrite the last "
                       "output and serialise again} into one destination variable, for each of the 7 decoders; after every step the destination is projected "
                       "(nil vs empty distinguished, raw bytes included) and each successful decode is also done into a fresh variable; TLC walks every history "
                       "and judges history-freedom, atomicity and absence of aliasing",
                  exhaustive=True)


# ----------------------------------------------------------------------------- C18
def race_run(ctx, cases):
    """run the ungated stress under the race detector; the detector's reports are observations added to the events"""
    binp = build_harness(ctx, race=True)
    events = []
    for c in cases:
        e = dict(os.environ, VERIF_SEED=str(ctx.seed), VERIF_TIER=ctx.tier, VERIF_FIXTURES=os.path.join(VERIF, "fixtures"), VERIF_SERIAL="1",
                 GORACE="halt_on_error=0 exitcode=0")
        try:
            r = subprocess.run([binp, "exec", "racestress"], input=json.dumps(c) + "\n", capture_output=True, text=True, timeout=600, env=e)
        except subprocess.TimeoutExpired:
            raise Infra("race stress timed out")
        races = r.stderr.count("WARNING: DATA RACE")
        crashed = r.returncode != 0
        ev = None
        for line in r.stdout.splitlines():
            if line.startswith("{"):
                ev = json.loads(line)
        if ev is None:
            ev = dict(op="racestress", ops=c["ops"], decoded=c["decoded"], workers=c["workers"], iters=c["iters"], bad=0, unchanged=True)
            crashed = True
        ev["races"], ev["crashed"] = races, crashed
        if crashed or races:
            ev["stderr"] = r.stderr[-1500:]
        events.append(ev)
    return events


@prop("C18")
def c18(ctx):
    inv = ["ReadOnly", "SeqEquivalent", "RaceFree", "Emit"]
    cfgs = [dict(NThreads=2, CallsPerThread=2, OpSet=tlaset(["verify", "marshal", "verifycs", "sign"])),
            dict(NThreads=3, CallsPerThread=1, OpSet=tlaset(["verify", "marshal", "verifycs0", "verifyhenv", "keymarshal", "sign", "verifysign", "marshalsign"]))]
    if not ctx.quick():
        cfgs += [dict(NThreads=2, CallsPerThread=2, OpSet=tlaset(["verifysign", "marshalsign", "verifyhenv", "keyverifier", "marshalcs", "verifycs0"])),
                 dict(NThreads=3, CallsPerThread=2, OpSet=tlaset(["verify", "marshal", "sign"]))]
    scheds = []
    for c in cfgs:
        scheds += gen(ctx, "Gen_C18", cfgtext(invariants=inv, constants=c), timeout=3000, heap="12g")
    rnd = random.Random(ctx.seed)
    limit = 6000 if ctx.quick() else 60000
    if len(scheds) > limit:
        ctx.notes["schedules_generated"] = len(scheds)
        scheds = rnd.sample(scheds, limit)
    for i, sc in enumerate(scheds):
        sc["decoded"] = (i % 2 == 1)
    events = harness(ctx, ["exec", "conc"], scheds, env=dict(VERIF_SERIAL="1"))
    seq = gen(ctx, "Gen_C18Seq", cfgtext(invariants=["Emit"]), timeout=600)
    events += harness(ctx, ["exec", "memflow"], seq)
    stress = []
    iters = 150 if ctx.quick() else 1500
    for ops in (["verify", "marshal", "verifycs", "verifycs0"], ["verifysign", "marshalsign", "verifyhenv", "keyverifier", "keymarshal", "marshalcs"], ["sign", "verify", "marshal"],
                ["signbuiltin", "verifybuiltin", "verify"], ["verifyfailown", "verifysign"]):
        for dec in (False, True):
            stress.append(dict(ops=ops, decoded=dec, workers=8, iters=iters))
    events += race_run(ctx, stress)
    rejects = judge(ctx, "Trace_C18", events, per_shard=3000)
    # the COSE_Key life cycle: Signer() / Verifier() / MarshalCBOR / signing and verifying with a key are read-only on the Key (KeyModel K_ReadOnly)
    events, rejects = with_key_model(ctx, "C18", events, rejects)
    return report(ctx, events, rejects,
                  nontrivial=lambda e: True,
                  key=lambda e: json.dumps(e["acts"]) if "acts" in e else json.dumps([e["op"], e.get("sched"), e.get("progs"), e.get("decoded"), e.get("ops"), e.get("steps")]),
                  rule="TLC explores every interleaving of the thread state machine (Call / callback / Resume) for 2 threads x 2 calls and 3 threads x 1 call over "
                       "read-only operations on shared values with a shared verifier and Sign on own messages with a shared signer, checking ReadOnly, RaceFree "
                       "and SeqEquivalent on the specification, and emits every complete schedule (quick tier: a seeded sample); each schedule is replayed with "
                       "goroutines gated at the key callbacks, the shared values are projected at every quiescent point; single-threaded programs bracket each "
                       "read-only call with projections of values carrying non-normalised Go types; the same operations run ungated under the Go race detector",
                  exhaustive=not ctx.quick())


# ----------------------------------------------------------------------------- C06
def c05_cases(ctx):
    kinds_all = ["sign1", "sign1u", "sign", "sig"]
    cases = gen(ctx, "Gen_C05", cfgtext(invariants=["BaseWF", "ConformingIsWF", "KindsDisjoint", "Emit"],
                                        constants=dict(Depth=1, GenKinds=tlaset(kinds_all + ["csig"]), MaxBase=3)))
    if ctx.quick():
        c2 = cfgtext(invariants=["ConformingIsWF", "Emit"], constants=dict(Depth=2, GenKinds=tlaset(["sign1", "sig"]), MaxBase=1))
    else:
        c2 = cfgtext(invariants=["ConformingIsWF", "Emit"], constants=dict(Depth=2, GenKinds=tlaset(kinds_all), MaxBase=3))
    cases += gen(ctx, "Gen_C05", c2, timeout=3000, heap="12g")
    seen, uniq = set(), []
    for c in cases:
        k = tuple(c["bytes"])
        if k not in seen:
            seen.add(k)
            c["src"] = "tlc"
            uniq.append(c)
    return uniq


@prop("C06")
def c06(ctx):
    cases = [dict(bytes=c["bytes"], src="tlc-msg") for c in c05_cases(ctx)]
    keys = [dict(bytes=c["bytes"], src="tlc-key") for c in keydec_cases(ctx)]
    hdrs = [dict(bytes=c["image"], src="tlc-hdr") for c in hdrgrid_cases(ctx) if c["kind"] in ("prot", "unprot", "sign1")]
    if ctx.quick():
        rnd = random.Random(ctx.seed)
        ctx.notes["key_cases_generated"], ctx.notes["header_images_generated"] = len(keys), len(hdrs)
        keys, hdrs = rnd.sample(keys, min(len(keys), 40000)), rnd.sample(hdrs, min(len(hdrs), 15000))
    cases += keys + hdrs
    cases += [dict(bytes=c["bytes"], src="tlc-wide") for c in gen(ctx, "Gen_Wide", cfgtext(invariants=["Emit"]), timeout=600)]
    cases += harness(ctx, ["drive", "nopanic"])
    cases += [dict(bytes=[], src="tiny")] + [dict(bytes=[a], src="tiny") for a in range(256)] + [dict(bytes=[a, b], src="tiny") for a in range(256) for b in range(256)]
    seen, uniq = set(), []
    for c in cases:
        k = tuple(c["bytes"])
        if k not in seen:
            seen.add(k)
            uniq.append(c)
    events = harness(ctx, ["exec", "nopanic"], uniq, timeout=3000)
    rejects = judge(ctx, "Trace_C06", events, shards=NCPU)
    return report(ctx, events, rejects,
                  nontrivial=lambda e: len(e["accepted"]) > 0,
                  key=lambda e: tuple(e["bytes"]),
                  rule="Inputs: every TLC-generated structural mutation (single/double) of valid messages of every kind, every TLC-generated COSE_Key variant and key-tree "
                       "mutation, the wire images of the header grid, and a seeded byte-level mutation driver (bit flips, byte edits, insert/delete, truncation, splices, "
                       "length-field edits, random bytes) over a corpus of valid messages, keys, header buckets and envelopes. Each input goes to all 9 decoding entry "
                       "points under recover() and a deadline; every accepted value then runs re-encode, verify (symbolic and built-in verifiers), sign, countersign "
                       "(full/abbreviated, pointer/value), verification of every nested countersignature, header accessors, key conversions, signer/verifier use; "
                       "TLC judges every event (panic / timeout match no specification action) and evaluates its own decoders on the same input; non-trivial = "
                       "at least one entry point accepted the input, so follow-up operations ran",
                  exhaustive=False)


def setup():
    ctx = Ctx("setup", "quick", 1)
    try:
        for f in sorted(os.listdir(SPEC)):
            if f.endswith(".tla"):
                r = subprocess.run(["java", "-cp", TLA_CP, "tla2sany.SANY", f], cwd=SPEC, capture_output=True, text=True)
                if r.returncode != 0 or "error" in r.stdout.lower().replace("errors: 0", ""):
                    print(r.stdout[-2000:])
                    return 2
        build_harness(ctx)
        return 0
    except Infra as e:
        print("setup failed:", e)
        return 2


# pid -> (harness exec op, judge module, extra cfg)
REPLAY = {
    "C01": ("memflow", "Trace_C01", None), "C02": ("wireflow", "Trace_Wire", 'CONSTANT Prop = "C02"\n'), "C03": ("wireflow", "Trace_Wire", 'CONSTANT Prop = "C03"\n'),
    "C04": ("memflow", "Trace_C04", None), "C05": ("C05", "Trace_C05", None), "C06": ("nopanic", "Trace_C06", None),
    "C07": ("wireflow", "Trace_Wire", 'CONSTANT Prop = "C07"\n'), "C08": ("hdrgrid", "Trace_C08", None), "C09": ("wireflow", "Trace_Wire", 'CONSTANT Prop = "C09"\n'),
    "C10": ("memflow", "Trace_C10", None), "C11": ("memflow", "Trace_C11", None), "C12": ("memflow", "Trace_C12", None), "C13": ("hdrgrid", "Trace_C13", None),
    "C14": ("keyrt", "Trace_C14", None), "C15": ("keydec", "Trace_C15", None), "C16": (None, "Trace_C16", None), "C17": (None, "Trace_C17", None),
    "C18": (None, "Trace_C18", None), "C19": ("memflow", "Trace_C19", None), "C20": ("memflow", "Trace_C20", None),
}


def replay(ctx, path):
    """re-execute the case stored in a replay file against the current tree and let TLC judge it again"""
    with open(path) as f:
        doc = json.load(f)
    pid = doc["property"]
    if pid != ctx.id:
        raise Infra("replay file belongs to %s" % pid)
    ctx.replaying = True
    ev = doc["event"]
    op, module, extra = REPLAY[pid]
    if op is None:
        op = ev["op"]                      # C16 / C17 / C18 events name their executor
    if pid == "C08" and "steps" in ev:
        op, module = "memflow", "Trace_C08Seq"
    prefix = None
    if "acts" in ev:                       # a behaviour of one of the life-cycle models
        op, prefix = "memflow", pid + ":"
        if "keymodel" in ev:
            module, kc = "Trace_Key", dict(MaxHist=0, Record="FALSE", Ktys=KEY_ALL)
        elif "envmodel" in ev:
            module, kc = "Trace_Env", dict(MaxHist=0, Record="FALSE", MaxLevel=0, **ENV_ALL)
        elif "sg" in ev:
            module, kc = "Trace_Sg", dict(MaxHist=0, Record="FALSE", Scope='"all"', MaxLevel=0, **SG_CONSTS)
        elif "okind" in ev:
            module, kc = "Trace_Model", dict(MaxHist=0, Record="FALSE", KidVals="{0, 1}", **dict(MODEL_CONSTS, ObjKind='"%s"' % ev["okind"]))
        else:
            module, kc = "Trace_Cs", dict(MaxHist=0, Record="FALSE", Scope='"all"', MaxLevel=0, **CS_CONSTS)
        extra = "".join("CONSTANT %s = %s\n" % kv for kv in kc.items())
    if "session" in doc and doc.get("session_op") == "factory":
        events = harness(ctx, ["exec", "factory"], doc["session"], env=dict(VERIF_SERIAL="1"))[-1:]
        rejects = judge(ctx, module, events, extra_cfg=extra)
        if rejects:
            print("VIOLATION property=%s replay=%s reason=%s" % (pid, path, ",".join(rejects[0])))
            return 1
        print("replay: not reproduced on the current tree (%s)" % path)
        return 0
    if "session" in doc:
        events = harness(ctx, ["exec", "memflow-session"], [dict(session=doc["session"])])[0]["events"][-1:]
        rejects = judge(ctx, module, events, extra_cfg=extra)
        if rejects:
            print("VIOLATION property=%s replay=%s reason=%s" % (pid, path, ",".join(rejects[0])))
            return 1
        print("replay: not reproduced on the current tree (%s)" % path)
        return 0
    if op == "racestress":
        events = race_run(ctx, [dict(ops=ev["ops"], decoded=ev["decoded"], workers=ev["workers"], iters=ev["iters"])])
    else:
        serial = dict(VERIF_SERIAL="1") if op in ("conc", "memflow") else None
        events = harness(ctx, ["exec", op], [ev], env=serial)
        if pid == "C08" and op == "hdrgrid":
            events[0]["out2"] = harness(ctx, ["exec", op], [ev])[0]["out"]
        if pid == "C01":
            events = [dict(flow=e["flow"], kind=e["kind"], alg=e["alg"], kk=e["kk"], h=e["h"], n=e["n"], obs=[dict(op=o["op"], res=o["res"]) for o in e["obs"]]) for e in events]
    rejects = judge(ctx, module, events, extra_cfg=extra)
    if prefix:
        rejects = {i: [x for x in r if x.startswith(prefix)] for i, r in rejects.items()}
        rejects = {i: r for i, r in rejects.items() if r}
    if rejects:
        print("VIOLATION property=%s replay=%s reason=%s" % (pid, path, ",".join(list(rejects.values())[0])))
        return 1
    print("replay: not reproduced on the current tree (%s)" % path)
    return 0
