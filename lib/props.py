"""Per-property pipelines."""
import os, json, subprocess
from orchestrator import *

PROPS = {}


def prop(pid):
    def deco(f):
        PROPS[pid] = f
        return f
    return deco


def cfgtext(spec="Spec", invariants=(), constants=None, props=(), extra=""):
    s = "SPECIFICATION %s\n" % spec
    for k, v in (constants or {}).items():
        s += "CONSTANT %s = %s\n" % (k, v)
    for i in invariants:
        s += "INVARIANT %s\n" % i
    for p in props:
        s += "PROPERTY %s\n" % p
    s += "CHECK_DEADLOCK FALSE\n" + extra
    return s


def tlaset(xs):
    return "{" + ", ".join('"%s"' % x for x in xs) + "}"


# ----------------------------------------------------------------------------- C05
@prop("C05")
def c05(ctx):
    kinds_all = ["sign1", "sign1u", "sign", "sig"]
    # (a) the property on the specification + (b) generation, in one exhaustive exploration per depth
    cases = []
    c1 = cfgtext(invariants=["BaseWF", "ConformingIsWF", "KindsDisjoint", "Emit"],
                 constants=dict(Depth=1, GenKinds=tlaset(kinds_all + ["csig"]), MaxBase=3))
    cases += gen(ctx, "Gen_C05", c1)
    if ctx.quick():
        c2 = cfgtext(invariants=["ConformingIsWF", "Emit"], constants=dict(Depth=2, GenKinds=tlaset(["sign1", "sig"]), MaxBase=1))
    else:
        c2 = cfgtext(invariants=["ConformingIsWF", "Emit"], constants=dict(Depth=2, GenKinds=tlaset(kinds_all), MaxBase=3))
    cases += gen(ctx, "Gen_C05", c2, timeout=3000, heap="12g")
    seen, uniq = set(), []
    for c in cases:
        k = (tuple(c["bytes"]))
        if k in seen:
            continue
        seen.add(k)
        c["src"] = "tlc"
        uniq.append(c)
    events = harness(ctx, ["exec", "C05"], uniq)
    rejects = judge(ctx, "Trace_C05", events)
    return report(ctx, events, rejects,
                  nontrivial=lambda e: any(e["acc"].values()),
                  key=lambda e: tuple(e["bytes"]),
                  rule="TLC enumerates every single and (tier-dependent) double structural mutation at every position of the CBOR tree of valid "
                       "COSE_Sign1/COSE_Sign/COSE_Signature base messages; each distinct byte string is offered to all five decoders of the real "
                       "library; non-trivial = at least one decoder accepted it (so well-formedness had to be established by the TLA+ parser)",
                  exhaustive=True)


# ----------------------------------------------------------------------------- C13
ALL_SPELL = ["int", "int8", "int16", "int32", "int64", "uint", "uint8", "uint16", "uint32", "uint64"]


def hdrgrid_cases(ctx):
    if ctx.quick():
        consts = dict(Structs=tlaset(["prot", "unprot", "sign1", "signsig", "nested"]), Spellings=tlaset(ALL_SPELL),
                      PairSpellings=tlaset(["int", "int8", "int64", "uint16", "uint64"]))
    else:
        consts = dict(Structs=tlaset(["prot", "unprot", "sign1", "sig", "sign", "signsig", "nested"]), Spellings=tlaset(ALL_SPELL),
                      PairSpellings=tlaset(ALL_SPELL))
    return gen(ctx, "Gen_C13", cfgtext(invariants=["Emit"], constants=consts), timeout=3000, heap="8g")


@prop("C13")
def c13(ctx):
    cases = hdrgrid_cases(ctx)
    events = harness(ctx, ["exec", "hdrgrid"], cases)
    rejects = judge(ctx, "Trace_C13", events)
    return report(ctx, events, rejects,
                  nontrivial=lambda e: e["enc"] == "ok" or e["dec"] == "ok",
                  key=lambda e: (e["struct"], json.dumps(e["m"], sort_keys=True)),
                  rule="TLC enumerates the header grid (labels x value kinds x bucket x Go integer spelling; pair cells for IV/Partial IV, "
                       "crit/present label, duplicate labels under two Go types) embedded in every structure that has headers, and derives the wire "
                       "image of each; the real encoder is run on the in-memory value and the real decoder on the image; TLC judges every event; "
                       "non-trivial = accepted in at least one direction",
                  exhaustive=True)


def setup():
    ctx = Ctx("setup", "quick", 1)
    try:
        for f in sorted(os.listdir(SPEC)):
            if f.endswith(".tla"):
                r = subprocess.run(["java", "-cp", TLA_CP, "tla2sany.SANY", f], cwd=SPEC, capture_output=True, text=True)
                if r.returncode != 0 or "error" in r.stdout.lower().replace("errors: 0", ""):
                    print(r.stdout[-2000:])
                    return 2
        build_harness(ctx)
        return 0
    except Infra as e:
        print("setup failed:", e)
        return 2


def replay(ctx, path):
    with open(path) as f:
        doc = json.load(f)
    raise Infra("replay not implemented yet")
