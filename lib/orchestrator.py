"""Generic machinery of ./check: TLC runs, harness build/exec, trace judging, known findings, evidence."""
import sys, os, re, json, time, shutil, subprocess, hashlib, tempfile, atexit, signal, random, traceback
from concurrent.futures import ThreadPoolExecutor

VERIF = os.path.dirname(os.path.dirname(os.path.abspath(__file__)))
REPO = os.environ.get("VERIF_REPO", "/repo")
SPEC = os.path.join(VERIF, "spec")
HARNESS = os.path.join(VERIF, "harness")
TLA_CP = "/opt/veriftools/tla/tla2tools.jar:/opt/veriftools/tla/CommunityModules-deps.jar"
NCPU = os.cpu_count() or 4

GOENV = dict(GOFLAGS="-mod=mod", GOPROXY="off", GOSUMDB="off", GOTOOLCHAIN="local", CGO_ENABLED="1")


class Infra(Exception):
    """infrastructure problem: exit 2, never a violation"""


class Ctx:
    def __init__(self, pid, tier, seed, keep=False):
        self.id, self.tier, self.seed, self.keep = pid, tier, seed, keep
        self.t0 = time.time()
        base = os.path.join(VERIF, ".work")
        os.makedirs(base, exist_ok=True)
        self.work = tempfile.mkdtemp(prefix="%s-%s-" % (pid, tier), dir=base)
        self.states = 0          # distinct states over all TLC runs
        self.transitions = 0     # states generated over all TLC runs
        self.tlc_runs = []       # per-run statistics
        self.events = 0          # implementation events judged by TLC
        self.samples = []
        self.notes = {}
        self.harness_bin = None
        self.race_bin = None
        if not keep:
            atexit.register(self.cleanup)

    def cleanup(self):
        shutil.rmtree(self.work, ignore_errors=True)

    def quick(self):
        return self.tier == "quick"

    def log(self, *a):
        print("[%s %6.1fs]" % (self.id, time.time() - self.t0), *a, file=sys.stderr, flush=True)


# ----------------------------------------------------------------------------- TLC
def spec_dir(ctx, name):
    """fresh copy of the specification modules (TLC litters its working directory)"""
    d = os.path.join(ctx.work, name)
    os.makedirs(d, exist_ok=True)
    for f in os.listdir(SPEC):
        if f.endswith(".tla"):
            dst = os.path.join(d, f)
            if not os.path.exists(dst):
                os.symlink(os.path.join(SPEC, f), dst)
    return d


_STATS = re.compile(r"^(\d+) states generated, (\d+) distinct states found")
_OUT = re.compile(r'^<<\s*"([A-Z]+)",\s*(.*?)\s*>>$')


def tlc(ctx, module, cfg, workers=None, timeout=900, heap="4g", simulate=None, depth=None, seed=None,
        cwd=None, stack="256m", tag=None, want=("CASE",), expect_ok=True):
    """Run TLC on spec/<module>.tla with configuration text cfg.
    Returns (outputs, stats) where outputs[TAG] is the list of PrintT payloads <<"TAG", payload>>."""
    d = cwd or spec_dir(ctx, "tlc-%s-%d" % (module, len(ctx.tlc_runs)))
    cfgp = os.path.join(d, module + ".cfg")
    with open(cfgp, "w") as f:
        f.write(cfg)
    meta = os.path.join(d, "meta")
    cmd = ["java", "-Xmx" + heap, "-Xss" + stack, "-XX:+UseParallelGC", "-cp", TLA_CP, "tlc2.TLC",
           "-metadir", meta, "-config", module + ".cfg", "-noGenerateSpecTE"]
    if simulate:
        cmd += ["-workers", "1", "-simulate", "num=%d" % simulate, "-depth", str(depth or 20), "-seed", str(seed or 1)]
    else:
        cmd += ["-workers", str(workers or NCPU)]
    cmd += [module + ".tla"]
    t0 = time.time()
    outp = os.path.join(d, module + ".out")
    with open(outp, "w") as out:
        try:
            rc = subprocess.run(cmd, cwd=d, stdout=out, stderr=subprocess.STDOUT, timeout=timeout).returncode
        except subprocess.TimeoutExpired:
            raise Infra("TLC timeout (%ds) on %s" % (timeout, module))
    outputs = {w: [] for w in want}
    st = dict(module=module, generated=0, distinct=0, wall_s=0.0, rc=rc, tag=tag or module)
    errors = []
    with open(outp, errors="replace") as f:
        pending = None
        for line in f:
            line = line.rstrip("\n")
            # TLC wraps long values over several lines: glue a tuple that starts with <<"TAG" until its closing >>
            if pending is not None:
                pending += " " + line.strip()
                if line.rstrip().endswith(">>"):
                    line, pending = pending, None
                else:
                    continue
            elif (line.startswith('<<"') or line.startswith('<< "')) and not line.rstrip().endswith(">>"):
                pending = line
                continue
            m = _OUT.match(line)
            if m and m.group(1) in outputs:
                outputs[m.group(1)].append(m.group(2))
                continue
            m = _STATS.match(line)
            if m:
                st["generated"], st["distinct"] = int(m.group(1)), int(m.group(2))
            if line.startswith("Error:") or "Exception" in line or "is violated" in line or "was false" in line or "is false" in line:
                errors.append(line)
    st["wall_s"] = round(time.time() - t0, 2)
    ctx.tlc_runs.append(st)
    ctx.states += st["distinct"]
    ctx.transitions += st["generated"]
    if expect_ok and (rc != 0 or errors):
        with open(outp, errors="replace") as f:
            tl = [x[:300] for x in f.read().splitlines() if not x.startswith("<<")]
        tail = "\n".join(tl[-25:])
        raise Infra("TLC failed on %s (rc=%d): %s\n%s" % (module, rc, errors[:3], tail))
    return outputs, st


def payload_json(p):
    """payload of <<"TAG", "<json>">>: a TLA+ string literal holding JSON"""
    return json.loads(json.loads(p))


def mc(ctx, module, cfg, **kw):
    """model-check a property on the specification; a failure here is a specification problem (exit 2)"""
    out, st = tlc(ctx, module, cfg, want=(), **kw)
    ctx.log("MC %s: %d generated / %d distinct, %.1fs" % (module, st["generated"], st["distinct"], st["wall_s"]))
    return st


def gen(ctx, module, cfg, tagname="CASE", **kw):
    out, st = tlc(ctx, module, cfg, want=(tagname,), **kw)
    seen, cases = set(), []
    for p in out[tagname]:
        if p in seen:
            continue
        seen.add(p)
        cases.append(payload_json(p))
    ctx.log("GEN %s: %d cases (%d generated / %d distinct states, %.1fs)" % (module, len(cases), st["generated"], st["distinct"], st["wall_s"]))
    return cases


# ----------------------------------------------------------------------------- harness
def build_harness(ctx, race=False):
    attr = "race_bin" if race else "harness_bin"
    if getattr(ctx, attr):
        return getattr(ctx, attr)
    if not os.path.exists(os.path.join(REPO, "go.mod")):
        raise Infra("no go.mod under %s" % REPO)
    modfile = os.path.join(ctx.work, "go.mod")
    with open(os.path.join(HARNESS, "go.mod")) as f:
        txt = f.read()
    txt = re.sub(r"(replace github.com/veraison/go-cose => ).*", r"\g<1>" + REPO, txt)
    with open(modfile, "w") as f:
        f.write(txt)
    shutil.copy(os.path.join(REPO, "go.sum"), os.path.join(ctx.work, "go.sum"))
    out = os.path.join(ctx.work, "harness-race" if race else "harness-bin")
    env = dict(os.environ, **GOENV)
    cmd = ["go", "build", "-modfile=" + modfile, "-o", out] + (["-race"] if race else []) + ["."]
    t0 = time.time()
    r = subprocess.run(cmd, cwd=HARNESS, env=env, capture_output=True, text=True, timeout=600)
    if r.returncode != 0:
        raise Infra("harness build failed against %s:\n%s" % (REPO, r.stderr[-3000:]))
    ctx.log("built harness%s against %s in %.1fs" % (" (race)" if race else "", REPO, time.time() - t0))
    setattr(ctx, attr, out)
    return out


def harness(ctx, args, cases=None, timeout=1800, race=False, env=None):
    """run the harness; cases (list of dicts) go to stdin as ndjson; returns list of event dicts"""
    binp = build_harness(ctx, race)
    inp = None
    if cases is not None:
        inp = "".join(json.dumps(c, separators=(",", ":")) + "\n" for c in cases)
    e = dict(os.environ, VERIF_SEED=str(ctx.seed), VERIF_TIER=ctx.tier, VERIF_FIXTURES=os.path.join(VERIF, "fixtures"))
    if env:
        e.update(env)
    t0 = time.time()
    try:
        r = subprocess.run([binp] + args, input=inp, capture_output=True, text=True, timeout=timeout, env=e)
    except subprocess.TimeoutExpired:
        raise Infra("harness %s timed out after %ds" % (args, timeout))
    if r.returncode != 0 and ("fatal error:" in r.stderr or "panic:" in r.stderr) and not (env or {}).get("VERIF_SERIAL") and not race:
        # the Go runtime aborted the whole process while independent cases ran in parallel (one map or one verifier's hidden state touched
        # by several of them, a panic in a goroutine the library started): no verdict can be read from that; run the cases one after the
        # other instead, so that each yields its event
        ctx.log("harness %s aborted by the Go runtime while cases ran in parallel (%s); re-running the cases serially" % (" ".join(args), (r.stderr.strip().splitlines() or ["?"])[0][:120]))
        ctx.notes["harness_rerun_serially"] = True
        return harness(ctx, args, cases, timeout=timeout * 4, race=race, env=dict(env or {}, VERIF_SERIAL="1"))
    if r.returncode != 0:
        raise Infra("harness %s failed rc=%d: %s" % (args, r.returncode, r.stderr[-3000:]))
    events = []
    for line in r.stdout.splitlines():
        if line.startswith("{"):
            events.append(json.loads(line))
    ctx.log("harness %s: %d events in %.1fs" % (" ".join(args), len(events), time.time() - t0))
    if r.stderr.strip():
        ctx.notes.setdefault("harness_stderr", []).append(r.stderr[-1500:])
    return events


# ----------------------------------------------------------------------------- judging (trace validation)
_REJ = re.compile(r'^(\d+),\s*(.*)$')


def _judge_shard(ctx, module, shard_no, lines, extra_cfg, heap):
    d = spec_dir(ctx, "judge-%s-%d" % (module, shard_no))
    with open(os.path.join(d, "tr.ndjson"), "w") as f:
        f.write("\n".join(lines) + "\n")
    cfg = "SPECIFICATION TSpec\nPOSTCONDITION Accepted\nCHECK_DEADLOCK FALSE\n" + (extra_cfg or "")
    out, st = tlc(ctx, module, cfg, workers=1, cwd=d, want=("REJECT", "NOTE", "NREJ"), heap=heap, timeout=3000, tag="judge")
    if st["distinct"] != len(lines) + 1:
        raise Infra("judge %s shard %d consumed %d of %d events" % (module, shard_no, st["distinct"] - 1, len(lines)))
    if len(out["NREJ"]) != 1 or int(out["NREJ"][0]) != len(out["REJECT"]):
        raise Infra("judge %s shard %d: TLC counted %s rejected events, %d were parsed" % (module, shard_no, out["NREJ"], len(out["REJECT"])))
    rej = []
    for p in out["REJECT"]:
        m = _REJ.match(p)
        idx = int(m.group(1))
        reasons = sorted(set(re.findall(r'"([^"]+)"', m.group(2))))
        rej.append((idx - 1, reasons))
    notes = out["NOTE"]
    return rej, notes


def judge(ctx, module, events, shards=None, extra_cfg=None, heap="3g", per_shard=4000):
    """TLC validates every event against the specification. Returns {event index: [reasons]}"""
    if not events:
        raise Infra("no events to judge for %s" % module)
    n = len(events)
    k = shards or max(1, min(NCPU, (n + per_shard - 1) // per_shard))
    lines = [json.dumps(e, separators=(",", ":")) for e in events]
    bounds = [(i * n // k, (i + 1) * n // k) for i in range(k)]
    t0 = time.time()
    rejects = {}
    notes = []
    with ThreadPoolExecutor(max_workers=k) as ex:
        futs = [ex.submit(_judge_shard, ctx, module, i, lines[a:b], extra_cfg, heap) for i, (a, b) in enumerate(bounds) if b > a]
        for (a, b), fu in zip([x for x in bounds if x[1] > x[0]], futs):
            rej, nt = fu.result()
            for idx, reasons in rej:
                rejects[a + idx] = reasons
            notes += nt
    ctx.events += n
    ctx.log("JUDGE %s: %d events in %d shard(s), %d rejected, %.1fs" % (module, n, k, len(rejects), time.time() - t0))
    ctx.notes.setdefault("judge_notes", 0)
    ctx.notes["judge_notes"] += len(notes)
    return rejects


# ----------------------------------------------------------------------------- known findings
def load_known():
    p = os.path.join(VERIF, "known_findings.json")
    if not os.path.exists(p):
        return []
    with open(p) as f:
        return json.load(f).get("findings", [])


def _get(ev, path):
    cur = ev
    for part in path.split("."):
        if isinstance(cur, dict) and part in cur:
            cur = cur[part]
        elif isinstance(cur, list) and part.isdigit() and int(part) < len(cur):
            cur = cur[int(part)]
        else:
            return None
    return cur


def hexof(b):
    return "".join("%02x" % x for x in b) if isinstance(b, list) else None


def match_known(entry, pid, ev, reason):
    if entry.get("property") != pid or entry.get("status", "open") != "open":
        return False
    m = entry.get("match", {})
    if "reason" in m and m["reason"] != reason:
        return False
    if "reason_in" in m and reason not in m["reason_in"]:
        return False
    for path, want in m.get("fields", {}).items():
        got = _get(ev, path)
        if isinstance(want, dict):
            if "in" in want and got not in want["in"]:
                return False
            if "hex" in want and hexof(got) != want["hex"]:
                return False
            if "hex_contains" in want and (hexof(got) is None or want["hex_contains"] not in hexof(got)):
                return False
            if "not" in want and got == want["not"]:
                return False
            if "regex" in want and (got is None or not re.search(want["regex"], json.dumps(got, sort_keys=True))):
                return False
        elif got != want:
            return False
    return True


# ----------------------------------------------------------------------------- reporting
def report(ctx, events, rejects, nontrivial=None, key=None, rule="", exhaustive=False, assumptions=(), extra=None,
           level_text=None):
    """print KNOWN-FINDING / VIOLATION lines, write evidence, return exit code"""
    known = load_known()
    violations, known_hits = [], {}
    if os.environ.get("VERIF_DEBUG"):
        with open(os.path.join(VERIF, ".work", "rejects-%s.ndjson" % ctx.id), "w") as f:
            for idx in sorted(rejects):
                f.write(json.dumps(dict(reasons=rejects[idx], ev=events[idx])) + "\n")
    repdir = os.path.join(VERIF, "evidence", "replays")
    incomplete = []
    for idx in sorted(rejects):
        ev = events[idx]
        for reason in rejects[idx]:
            if reason.startswith("incomplete-"):
                # the observation could not be completed (e.g. a gated schedule that the code under test does not follow): nothing is
                # concluded from it; if nothing else is found either, the run as a whole is inconclusive (exit 2), never a pass
                incomplete.append((idx, reason))
                continue
            if reason.startswith("infra-"):
                raise Infra("harness/specification disagreement (%s) on event %d: %s" % (reason, idx, json.dumps(trim(ev))[:800]))
            hit = None
            for entry in known:
                if match_known(entry, ctx.id, ev, reason):
                    hit = entry
                    break
            if hit:
                known_hits.setdefault(hit["id"], [hit, 0])[1] += 1
            else:
                violations.append((idx, reason))
    if incomplete and not violations:
        idx, reason = incomplete[0]
        raise Infra("%d observation(s) could not be completed (%s), e.g. event %d: %s" % (len(incomplete), reason, idx, json.dumps(trim(events[idx]))[:600]))
    for kid, (entry, cnt) in sorted(known_hits.items()):
        print("KNOWN-FINDING: property=%s %s [%s, %d event(s)]" % (ctx.id, entry["what"], kid, cnt))
    shown = 0
    seen_sig = set()
    for idx, reason in violations:
        ev = events[idx]
        sig = (reason, ev.get("op"), ev.get("class"))
        if sig in seen_sig and shown >= 5:
            continue
        seen_sig.add(sig)
        if shown >= 25:
            break
        os.makedirs(repdir, exist_ok=True)
        h = hashlib.sha1(json.dumps(ev, sort_keys=True).encode()).hexdigest()[:12]
        path = os.path.join(repdir, "%s-%s.json" % (ctx.id, h))
        with open(path, "w") as f:
            doc = dict(property=ctx.id, reason=reason, all_reasons=rejects[idx], event=ev, seed=ctx.seed, tier=ctx.tier)
            if "sess" in ev:        # the event was observed in a session: the replay needs the cases that ran before it
                pack, pos = ev["sess"]
                doc["session"] = getattr(ctx, "packs")[pack]["session"][:pos + 1]
                doc["session_op"] = getattr(ctx, "packs")[pack].get("op", "memflow-session")
            json.dump(doc, f, indent=1)
        print("VIOLATION property=%s replay=%s reason=%s" % (ctx.id, path, reason))
        shown += 1
    # evidence
    distinct = set()
    nt = 0
    for ev in events:
        kk = key(ev) if key else json.dumps(ev.get("case", ev), sort_keys=True)
        if kk in distinct:
            continue
        distinct.add(kk)
        if nontrivial is None or nontrivial(ev):
            nt += 1
    samples = ctx.samples[:]
    if events:
        rnd = random.Random(ctx.seed)
        for ev in rnd.sample(events, min(3, len(events))):
            samples.append(trim(ev))
    cov = dict(states=ctx.states, transitions=ctx.transitions, traces_validated_against_impl=len(events),
               evaluations=len(events), distinct_nontrivial=nt, rule=rule, samples=samples, exhaustive=exhaustive,
               tlc_runs=ctx.tlc_runs, known_findings_hit={k: v[1] for k, v in known_hits.items()},
               rejected_events=len(rejects), repo=REPO)
    if extra:
        cov.update(extra)
    cov.update({k: v for k, v in ctx.notes.items() if k not in cov})
    write_evidence(ctx, cov, assumptions, len(violations))
    return 1 if violations else 0


def _hexify(v, depth=0):
    """compact, readable rendering of an event for the evidence samples: byte arrays as hex, heavy fields dropped"""
    if isinstance(v, list):
        if v and all(isinstance(x, int) and not isinstance(x, bool) and -2 <= x <= 255 for x in v):
            h = "".join("%02x" % (x & 0xff) for x in v)
            return "h'" + (h if len(h) <= 96 else h[:96] + "...(%d bytes)" % len(v)) + "'"
        out = [_hexify(x, depth + 1) for x in v[:8]]
        if len(v) > 8:
            out.append("... %d more" % (len(v) - 8))
        return out
    if isinstance(v, dict):
        out = {}
        for k, x in v.items():
            if k in ("post", "fresh", "hdrpost", "calls", "tlc_runs") and depth > 0:
                if k == "calls":
                    out[k] = ["%s.%s" % (c.get("who"), c.get("call")) for c in x][:8]
                continue
            out[k] = _hexify(x, depth + 1)
        return out
    return v


def trim(ev, maxlen=2500):
    r = _hexify(ev)
    s = json.dumps(r, separators=(",", ":"))
    if len(s) <= maxlen:
        return r
    return {"truncated": s[:maxlen] + "..."}


def write_evidence(ctx, cov, assumptions, violations):
    os.makedirs(os.path.join(VERIF, "evidence"), exist_ok=True)
    doc = dict(property_id=ctx.id, tier=ctx.tier, seed=ctx.seed, level="model_checking", coverage=cov,
               assumptions=list(assumptions) + [
                   "TLC 1.8.0 and the TLA+ modules under /verif/spec are the oracle; the Go harness only concretises inputs, calls the public API and projects results",
                   "cryptographic primitives of the Go standard library are trusted"],
               wall_s=round(time.time() - ctx.t0, 2), violations=violations)
    p = os.path.join(VERIF, "evidence", ctx.id + ".json")
    if os.path.realpath(REPO) != "/repo" or getattr(ctx, "replaying", False):
        # a run against another tree (mutant, scratch worktree) or a replay never overwrites the committed evidence
        p = os.path.join(VERIF, ".work", "evidence-alt-%s.json" % ctx.id)
    tmp = p + ".tmp%d" % os.getpid()
    with open(tmp, "w") as f:
        json.dump(doc, f, indent=1)
    os.replace(tmp, p)


# ----------------------------------------------------------------------------- main
def main(argv):
    import props
    if not argv or argv[0] in ("-h", "--help"):
        print(__doc__ or "usage: check <ID> [--tier quick|thorough] [--replay path]")
        return 2
    pid = argv[0]
    tier = os.environ.get("VERIF_TIER", "quick")
    replay = None
    keep = False
    i = 1
    while i < len(argv):
        if argv[i] == "--tier":
            tier = argv[i + 1]; i += 2
        elif argv[i] == "--replay":
            replay = argv[i + 1]; i += 2
        elif argv[i] == "--keep":
            keep = True; i += 1
        else:
            print("unknown argument", argv[i], file=sys.stderr)
            return 2
    if tier not in ("quick", "thorough"):
        tier = "quick"
    try:
        seed = int(os.environ.get("VERIF_SEED", "1"))
    except ValueError:
        seed = 1
    if pid == "--setup":
        return props.setup()
    if pid not in props.PROPS:
        print("unknown property", pid, file=sys.stderr)
        return 2
    ctx = Ctx(pid, tier, seed, keep)
    try:
        if replay:
            return props.replay(ctx, replay)
        return props.PROPS[pid](ctx)
    except Infra as e:
        print("INFRA property=%s %s" % (pid, e), file=sys.stderr)
        return 2
    except Exception:
        traceback.print_exc()
        print("INFRA property=%s internal error" % pid, file=sys.stderr)
        return 2
