------------------------------ MODULE Gen_C02Mem ------------------------------
(***************************************************************************)
(* Generator for C02, memory side: constructed messages (Sign1, untagged,  *)
(* COSE_Sign with two signers, standalone Signature) with several header   *)
(* shapes, payload and external-data size classes up to 65536 bytes, are   *)
(* signed with a recording signer, serialised, parsed back and verified    *)
(* with a recording verifier; the judge compares every recorded input with *)
(* the Sig_structure the specification builds from the object's state.     *)
(***************************************************************************)
EXTENDS CoseSystem, Json
CONSTANTS Sizes
AlgV == [t |-> "alg", neg |-> TRUE, a |-> <<6>>]
Kid(n) == <<GoInt("int64", 4), GoBytes([i \in 1..n |-> i % 251])>>
Ps == { <<>>, <<<<GoInt("int64", 1), AlgV>>>>, <<<<GoInt("int", 1), GoNeg("int8", 6)>>, Kid(3), <<GoStr(<<120>>), [t |-> "arr", xs |-> <<GoInt("int", 1)>>]>>>>,
        <<<<GoInt("int64", 1), AlgV>>, Kid(18)>>, <<<<GoInt("int64", 1), AlgV>>, Kid(19)>>, <<<<GoInt("int64", 1), AlgV>>, Kid(249)>>, <<<<GoInt("int64", 1), AlgV>>, Kid(250)>> }
Us == { <<>>, <<Kid(2), <<GoInt("int64", 5), GoBytes(<<1>>)>>>> }
Tok(n) == IF n <= 64 THEN [i \in 1..n |-> ((i - 1) * 131) % 256] ELSE <<0 - 2, n \div 65536, (n \div 256) % 256, n % 256>>
Sg(i) == [kind |-> "sym", name |-> ("k" \o ToString(i)), alg |-> 0 - 7, fault |-> ""]
Vf(i) == [kind |-> "sym", name |-> ("k" \o ToString(i)), alg |-> 0 - 7, fault |-> ""]
X(en) == IF en = 0 THEN [ext |-> <<>>, extnil |-> TRUE, extempty |-> FALSE] ELSE [ext |-> Tok(en), extnil |-> FALSE, extempty |-> FALSE]
BodyProt == <<88, 3, 161, 3, 0>>         \* h'a10300' with a non-minimal length prefix: must be normalised inside the Sig_structure

Prog(kind, P, U, pn, en) ==
  CASE kind \in {"sign1", "sign1u"} ->
         << [op |-> "new", obj |-> "m", kind |-> kind, m |-> [P |-> P, U |-> U, payload |-> Tok(pn), sig |-> <<>>]],
            [op |-> "sign", obj |-> "m", signers |-> <<Sg(1)>>] @@ X(en),
            [op |-> "marshal", obj |-> "m", buf |-> "b"],
            [op |-> "unmarshal", obj |-> "m2", kind |-> kind, buf |-> "b"],
            [op |-> "verify", obj |-> "m2", verifiers |-> <<Vf(1)>>] @@ X(en) >>
    [] kind = "sign" ->
         << [op |-> "new", obj |-> "m", kind |-> "sign", m |-> [P |-> U, U |-> <<>>, payload |-> Tok(pn),
                 sigs |-> <<[P |-> P, U |-> <<>>, sig |-> <<>>], [P |-> <<<<GoInt("int64", 1), AlgV>>, Kid(1)>>, U |-> U, sig |-> <<>>]>>]],
            [op |-> "sign", obj |-> "m", signers |-> <<Sg(1), Sg(2)>>] @@ X(en),
            [op |-> "marshal", obj |-> "m", buf |-> "b"],
            [op |-> "unmarshal", obj |-> "m2", kind |-> "sign", buf |-> "b"],
            [op |-> "verify", obj |-> "m2", verifiers |-> <<Vf(1), Vf(2)>>] @@ X(en) >>
    [] kind = "sig" ->
         << [op |-> "new", obj |-> "m", kind |-> "sig", m |-> [P |-> P, U |-> U, sig |-> <<>>]],
            [op |-> "sign", obj |-> "m", signers |-> <<Sg(1)>>, bodyprot |-> BodyProt, payload |-> Tok(pn)] @@ X(en),
            [op |-> "marshal", obj |-> "m", buf |-> "b"],
            [op |-> "unmarshal", obj |-> "m2", kind |-> "sig", buf |-> "b"],
            [op |-> "verify", obj |-> "m2", verifiers |-> <<Vf(1)>>, bodyprot |-> BodyProt, payload |-> Tok(pn)] @@ X(en) >>
VARIABLE st
Init == st = [phase |-> 0]
\* size classes are crossed with one header shape; header shapes with small sizes
Pick == st.phase = 0 /\ \E kind \in {"sign1", "sign1u", "sign", "sig"} :
   \/ \E P \in Ps : \E U \in Us : \E pn \in {0, 1, 24} : \E en \in {0, 3} :
        ~(P = <<>> /\ en # 0 /\ FALSE) /\ st' = [phase |-> 1, kind |-> kind, P |-> P, U |-> U, pn |-> pn, en |-> en]
   \/ \E pn \in Sizes : \E en \in {0, 24} : st' = [phase |-> 1, kind |-> kind, P |-> <<<<GoInt("int64", 1), AlgV>>>>, U |-> <<>>, pn |-> pn, en |-> en]
   \/ \E en \in Sizes : st' = [phase |-> 1, kind |-> kind, P |-> <<<<GoInt("int64", 1), AlgV>>>>, U |-> <<>>, pn |-> 2, en |-> en]
Next == Pick
Spec == Init /\ [][Next]_st
Emit == st.phase # 1 \/ PrintT(<<"CASE", ToJson([kind |-> st.kind, pn |-> st.pn, en |-> st.en, steps |-> Prog(st.kind, st.P, st.U, st.pn, st.en)])>>)
=============================================================================
