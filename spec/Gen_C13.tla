------------------------------- MODULE Gen_C13 -------------------------------
(***************************************************************************)
(* Generator for C13 (and C08): the header-parameter grid.  Labels x value *)
(* kinds x bucket x Go integer spelling of the label; pair cells for       *)
(* IV/Partial IV (same bucket and across buckets), crit x present label,   *)
(* duplicates spelled with two Go types; each cell embedded in every       *)
(* structure that has headers.  Each case carries the abstract in-memory   *)
(* message and the wire image the specification derives from it.           *)
(***************************************************************************)
EXTENDS GoValues, Json
CONSTANTS Structs,      \* subset of {"prot","unprot","sign1","sig","sign","signsig","nested"}
          Spellings,    \* Go integer types used to spell labels
          PairSpellings \* Go integer types used for both members of pair cells

A63 == <<127, 255, 255, 255, 255, 255, 255, 255>>
\* integer labels as (neg, a)
IntLabels == { <<FALSE, NatToArg(n)>> : n \in {1, 2, 3, 4, 5, 6, 7, 9, 11, 12, 15, 16, 32, 33, 34, 35, 99, 258, 259, 260} }
             \cup { <<TRUE, <<>>>>, <<TRUE, <<1, 0, 0>>>>, <<FALSE, A63>>, <<TRUE, A63>>, <<FALSE, <<128, 0, 0, 0, 0, 0, 0, 0>>>> }
SpelledLabels == { [t |-> t, neg |-> il[1], a |-> il[2]] : t \in Spellings, il \in IntLabels } 
FittingLabels == { l \in SpelledLabels : FitsType(l.t, l.neg, l.a) }
OtherLabels == { GoStr(<<120>>), GoStr(<<>>), GoBytes(<<1>>), [t |-> "bool", v |-> TRUE] }
Labels == FittingLabels \cup OtherLabels

CsObj == [P |-> <<<<GoInt("int64", 1), [t |-> "alg", neg |-> TRUE, a |-> <<6>>]>>>>, U |-> <<>>, sig |-> <<204, 221>>]
CsObj2 == [P |-> <<<<GoInt("int64", 1), [t |-> "alg", neg |-> TRUE, a |-> <<7>>]>>>>, U |-> <<<<GoInt("int64", 4), GoBytes(<<50>>)>>>>, sig |-> <<238>>]
Values ==
  { GoNeg("int64", 6), [t |-> "alg", neg |-> TRUE, a |-> <<6>>], GoInt("uint8", 5), GoInt("int", 0), GoNeg("int8", 0),
    GoStr(<<97, 47, 98>>), GoStr(<<97, 98>>), GoStr(<<>>), GoStr(<<32, 97, 47, 98>>), GoStr(<<97, 47, 98, 32>>), GoStr(<<97, 47, 98, 47, 99>>),
    GoBytes(<<1>>), GoBytes(<<>>), [t |-> "nilbytes"],
    [t |-> "arr", xs |-> <<GoInt("int64", 1)>>], [t |-> "arr", xs |-> <<>>], [t |-> "arr", xs |-> <<GoStr(<<120>>)>>],
    [t |-> "map", ps |-> <<<<GoInt("int64", 1), GoInt("int64", 2)>>>>], [t |-> "bool", v |-> TRUE], [t |-> "nil"],
    [t |-> "csig", x |-> CsObj], [t |-> "csigs", xs |-> <<CsObj, CsObj2>>], [t |-> "csigs", xs |-> <<CsObj2, CsObj, CsObj2>>], [t |-> "csigs", xs |-> <<>>],
    [t |-> "nilcsig"], [t |-> "csigval", x |-> CsObj], [t |-> "struct"], [t |-> "float"], [t |-> "simple", v |-> 16],
    [t |-> "uint64", neg |-> FALSE, a |-> <<128, 0, 0, 0, 0, 0, 0, 0>>],
    \* values of a byte-slice type with its own encoding (cbor.RawMessage): the bytes are a uint / a bstr / null / a tstr
    [t |-> "rawitem", b |-> <<1>>], [t |-> "rawitem", b |-> <<65, 49>>], [t |-> "rawitem", b |-> <<246>>], [t |-> "rawitem", b |-> <<97, 120>>] }

Sp(t, n) == [t |-> t, neg |-> FALSE, a |-> NatToArg(n)]
B1 == GoBytes(<<1>>)
AlgV == [t |-> "alg", neg |-> TRUE, a |-> <<6>>]
\* pair cells: [P, U] layers
PairLayers ==
  \* IV + Partial IV in one bucket / across buckets, every pair of spellings
  UNION { { [P |-> <<<<Sp(s1, 5), B1>>, <<Sp(s2, 6), B1>>>>, U |-> <<>>],
            [P |-> <<>>, U |-> <<<<Sp(s1, 5), B1>>, <<Sp(s2, 6), B1>>>>],
            [P |-> <<<<Sp(s1, 5), B1>>>>, U |-> <<<<Sp(s2, 6), B1>>>>],
            [P |-> <<<<Sp(s1, 6), B1>>>>, U |-> <<<<Sp(s2, 5), B1>>>>],
            \* crit naming a present label: crit entry spelled s1, the label itself spelled s2
            [P |-> <<<<Sp("int64", 2), [t |-> "arr", xs |-> <<Sp(s1, 1)>>]>>, <<Sp(s2, 1), AlgV>>>>, U |-> <<>>],
            [P |-> <<<<Sp(s2, 2), [t |-> "arr", xs |-> <<Sp(s1, 99)>>]>>, <<Sp(s2, 99), B1>>>>, U |-> <<>>],
            \* crit naming a label that is only in the other bucket / absent
            [P |-> <<<<Sp(s1, 2), [t |-> "arr", xs |-> <<Sp(s2, 4)>>]>>>>, U |-> <<<<Sp(s2, 4), B1>>>>],
            [P |-> <<<<Sp(s1, 2), [t |-> "arr", xs |-> <<Sp(s2, 77)>>]>>, <<Sp(s2, 1), AlgV>>>>, U |-> <<>>] }
          : s1 \in PairSpellings, s2 \in PairSpellings }
  \* the same label under two different Go types (a Go map can hold both)
  \cup UNION { IF s1 = s2 THEN {} ELSE
                 { [P |-> <<<<Sp(s1, 4), B1>>, <<Sp(s2, 4), GoBytes(<<2>>)>>>>, U |-> <<>>],
                   [P |-> <<>>, U |-> <<<<Sp(s1, 4), B1>>, <<Sp(s2, 4), GoBytes(<<2>>)>>>>] }
               : s1 \in PairSpellings, s2 \in PairSpellings }
  \* ... also for negative labels (-1, -70000)
  \cup UNION { IF s1 = s2 \/ s1 \notin SignedIntTypes \/ s2 \notin SignedIntTypes THEN {} ELSE
                 { [P |-> <<<<GoNeg(s1, 0), B1>>, <<GoNeg(s2, 0), GoBytes(<<2>>)>>>>, U |-> <<>>],
                   [P |-> <<>>, U |-> <<<<GoNeg(s1, 0), B1>>, <<GoNeg(s2, 0), GoBytes(<<2>>)>>>>] }
                 \cup (IF {s1, s2} \subseteq {"int", "int32", "int64"} THEN { [P |-> <<>>, U |-> <<<<GoNeg(s1, 69999), B1>>, <<GoNeg(s2, 69999), B1>>>>] } ELSE {})
               : s1 \in PairSpellings, s2 \in PairSpellings }
  \cup { [P |-> <<<<Sp("int64", 2), [t |-> "arr", xs |-> <<GoStr(<<120>>)>>]>>, <<GoStr(<<120>>), B1>>>>, U |-> <<>>],
         [P |-> <<<<Sp("int64", 2), [t |-> "arr", xs |-> <<GoStr(<<121>>)>>]>>, <<GoStr(<<120>>), B1>>>>, U |-> <<>>],
         [P |-> <<<<Sp("int64", 2), [t |-> "arr", xs |-> <<B1>>]>>, <<Sp("int64", 1), AlgV>>>>, U |-> <<>>],
         [P |-> <<<<Sp("int64", 2), [t |-> "arr", xs |-> <<Sp("int64", 1), Sp("int64", 4)>>]>>, <<Sp("int64", 1), AlgV>>, <<Sp("int64", 4), B1>>>>, U |-> <<>>],
         [P |-> <<<<Sp("int64", 2), [t |-> "arr", xs |-> <<Sp("int64", 1), Sp("int64", 4)>>]>>, <<Sp("int64", 1), AlgV>>>>, U |-> <<>>],
         [P |-> <<>>, U |-> <<<<Sp("int64", 2), [t |-> "arr", xs |-> <<Sp("int64", 4)>>]>>, <<Sp("int64", 4), B1>>>>],
         [P |-> <<>>, U |-> <<>>] }

\* embed a layer [P, U] in a structure; returns [kind, m]
Pay == <<1, 2>>
SigB == <<170, 187>>
Embed(struct, ly) ==
  CASE struct = "prot"    -> [kind |-> "prot", m |-> [P |-> ly.P, U |-> <<>>]]
    [] struct = "unprot"  -> [kind |-> "unprot", m |-> [P |-> <<>>, U |-> ly.U]]
    [] struct = "sign1"   -> [kind |-> "sign1", m |-> [P |-> ly.P, U |-> ly.U, payload |-> Pay, sig |-> SigB]]
    [] struct = "sig"     -> [kind |-> "sig", m |-> [P |-> ly.P, U |-> ly.U, sig |-> SigB]]
    [] struct = "sign"    -> [kind |-> "sign", m |-> [P |-> ly.P, U |-> ly.U, payload |-> Pay, sigs |-> <<CsObj>>]]
    [] struct = "signsig" -> [kind |-> "sign", m |-> [P |-> <<>>, U |-> <<>>, payload |-> Pay, sigs |-> <<CsObj, [P |-> ly.P, U |-> ly.U, sig |-> SigB]>>]]
    [] struct = "nested2" -> [kind |-> "sig", m |-> [P |-> <<>>, U |-> <<<<Sp("int64", 11), [t |-> "csigs", xs |-> <<CsObj,
                                 [P |-> <<>>, U |-> <<<<Sp("int64", 7), [t |-> "csig", x |-> [P |-> ly.P, U |-> ly.U, sig |-> SigB]]>>>>, sig |-> SigB]>>]>>>>, sig |-> SigB]]
    [] struct = "nested"  -> [kind |-> "sign1", m |-> [P |-> <<>>, U |-> <<<<Sp("int64", 7), [t |-> "csig", x |-> [P |-> ly.P, U |-> ly.U, sig |-> SigB]]>>>>,
                                                         payload |-> Pay, sig |-> SigB]]

VARIABLE st
Init == st = [phase |-> 0]
PickStruct == st.phase = 0 /\ \E s \in Structs : \E b \in {"P", "U", "pair"} : st' = [phase |-> 1, struct |-> s, bucket |-> b]
PickLabel  == st.phase = 1 /\ st.bucket # "pair" /\ \E l \in Labels : st' = [st EXCEPT !.phase = 2] @@ [label |-> l]
PickValue  == st.phase = 2 /\ \E v \in Values :
                 LET ly == IF st.bucket = "P" THEN [P |-> <<<<st.label, v>>>>, U |-> <<>>] ELSE [P |-> <<>>, U |-> <<<<st.label, v>>>>]
                 IN st' = [phase |-> 3, struct |-> st.struct, ly |-> ly]
PickPair   == st.phase = 1 /\ st.bucket = "pair" /\ \E ly \in PairLayers : st' = [phase |-> 3, struct |-> st.struct, ly |-> ly]
Next == PickStruct \/ PickLabel \/ PickValue \/ PickPair
Spec == Init /\ [][Next]_st

\* header-level structures only see their own bucket
Relevant == st.phase = 3 /\ ~(st.struct = "prot" /\ st.ly.P = <<>> /\ st.ly.U # <<>>) /\ ~(st.struct = "unprot" /\ st.ly.U = <<>> /\ st.ly.P # <<>>)
Emit == ~Relevant \/ LET e == Embed(st.struct, st.ly) IN
          PrintT(<<"CASE", ToJson([struct |-> st.struct, kind |-> e.kind, m |-> e.m, image |-> ImageOf(e.kind, e.m)])>>)
=============================================================================
