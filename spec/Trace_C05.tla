------------------------------ MODULE Trace_C05 ------------------------------
(* Judge for C05: every byte string offered to every decoder; an accepted     *)
(* input must be well-formed COSE of that decoder's own kind.                 *)
EXTENDS CoseStruct, Json, TraceKit
Tr == ndJsonDeserialize("tr.ndjson")
VARIABLE l

Fails(e) ==
  UNION { IF e.acc[kd] /\ ~WFCose(kd, e.bytes) THEN {"accepted-not-wellformed-" \o kd} ELSE {} : kd \in Kinds }

TInit == l = 1 /\ KitInit
TNext == /\ l <= Len(Tr) /\ l' = l + 1
         /\ Note(l, Fails(Tr[l]))
TSpec == TInit /\ [][TNext]_l
Accepted == KitDone(Len(Tr))
=============================================================================
