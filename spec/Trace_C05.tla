------------------------------ MODULE Trace_C05 ------------------------------
(* Judge for C05: every byte string offered to every decoder; an accepted     *)
(* input must be well-formed COSE of that decoder's own kind.                 *)
EXTENDS CoseStruct, Json
Tr == ndJsonDeserialize("tr.ndjson")
VARIABLE l

Fails(e) ==
  UNION { IF e.acc[kd] /\ ~WFCose(kd, e.bytes) THEN {"accepted-not-wellformed-" \o kd} ELSE {} : kd \in Kinds }

TInit == l = 1
TNext == /\ l <= Len(Tr) /\ l' = l + 1
         /\ LET f == Fails(Tr[l]) IN f = {} \/ PrintT(<<"REJECT", l, f>>)
TSpec == TInit /\ [][TNext]_l
Accepted == TLCGet("stats").diameter - 1 = Len(Tr)
=============================================================================
