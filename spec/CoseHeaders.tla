----------------------------- MODULE CoseHeaders -----------------------------
(***************************************************************************)
(* RFC 9052 section 3.1 (and RFC 9338 section 3) header-parameter rules as *)
(* a decision procedure over parsed CBOR items (wire level).  A header     *)
(* bucket is the pair sequence `ps` of a parsed map.  Written from the RFC *)
(* text and the property statements C05/C13, not from the Go source.       *)
(***************************************************************************)
EXTENDS CborData

\* ---------------------------------------------------------------------------
\* labels and value kinds
\* ---------------------------------------------------------------------------
Int64Arg(a) == Len(a) < 8 \/ (Len(a) = 8 /\ a[1] < 128)
IsIntItem(it) == it.k \in {"uint", "nint"}
IsInt64Item(it) == IsIntItem(it) /\ Int64Arg(it.a)
IsBstr(it) == it.k = "bstr" /\ ~it.indef
IsTstr(it) == it.k = "tstr" /\ ~it.indef
IsUint(it) == it.k = "uint"
IsArr(it) == it.k = "arr" /\ ~it.indef
IsMap(it) == it.k = "map" /\ ~it.indef
IsLabel(it) == IsInt64Item(it) \/ IsTstr(it)
IsUIntN(it, n) == it.k = "uint" /\ it.a = NatToArg(n)
HasLabel(ps, n) == \E i \in 1..Len(ps) : IsUIntN(ps[i][1], n)
ValueOf(ps, n) == ps[CHOOSE i \in 1..Len(ps) : IsUIntN(ps[i][1], n)][2]

LblAlg == 1   LblCrit == 2   LblContentType == 3   LblKid == 4   LblIV == 5   LblPartialIV == 6
LblCounterSig == 7   LblCounterSig0 == 9   LblCounterSigV2 == 11   LblCounterSig0V2 == 12
LblCwtClaims == 15   LblTyp == 16
LblHashAlg == 258   LblPreimageCT == 259   LblLocation == 260

Count(s, c) == Cardinality({i \in 1..Len(s) : s[i] = c})
\* "type/subtype": non-empty, no leading/trailing space, exactly one '/'
MediaTypeOK(s) == Len(s) > 0 /\ s[1] # 32 /\ s[Len(s)] # 32 /\ Count(s, 47) = 1
ContentTypeOK(v) == IsUint(v) \/ (IsTstr(v) /\ MediaTypeOK(v.b))

\* crit: non-empty array of labels, each present in the same bucket
CritOK(v, ps) ==
  /\ IsArr(v) /\ Len(v.xs) > 0
  /\ \A i \in 1..Len(v.xs) : /\ IsLabel(v.xs[i])
                             /\ \E j \in 1..Len(ps) : KeyId(ps[j][1]) = KeyId(v.xs[i])

\* ---------------------------------------------------------------------------
\* well-formedness of buckets, layers and COSE_Signature / COSE_Countersignature
\* ---------------------------------------------------------------------------
RECURSIVE WFSig3(_)
RECURSIVE WFUnprot(_)
RECURSIVE ValidParams(_, _)

\* countersignature value: one COSE_Countersignature or an array of them.
\* (An empty array is tolerated: the property text is silent on it.)
CsValueOK(v) == WFSig3(v) \/ (IsArr(v) /\ \A i \in 1..Len(v.xs) : WFSig3(v.xs[i]))

ParamOK(l, v, ps, prot) ==
  CASE IsUIntN(l, LblAlg) -> IsInt64Item(v) \/ IsTstr(v)
    [] IsUIntN(l, LblCrit) -> prot /\ CritOK(v, ps)
    [] IsUIntN(l, LblContentType) -> ContentTypeOK(v)
    [] IsUIntN(l, LblTyp) -> ContentTypeOK(v)
    [] IsUIntN(l, LblKid) -> IsBstr(v)
    [] IsUIntN(l, LblIV) -> IsBstr(v) /\ ~HasLabel(ps, LblPartialIV)
    [] IsUIntN(l, LblPartialIV) -> IsBstr(v) /\ ~HasLabel(ps, LblIV)
    [] IsUIntN(l, LblCounterSig) \/ IsUIntN(l, LblCounterSigV2) -> ~prot /\ CsValueOK(v)
    [] IsUIntN(l, LblCounterSig0) \/ IsUIntN(l, LblCounterSig0V2) -> ~prot /\ IsBstr(v)
    [] OTHER -> TRUE

ValidParams(ps, prot) == \A i \in 1..Len(ps) : IsLabel(ps[i][1]) /\ ParamOK(ps[i][1], ps[i][2], ps, prot)

\* the map inside a protected bstr ([ok, ps]); h'' stands for the empty map
ProtMap(x) == IF ~IsBstr(x) THEN [ok |-> FALSE, ps |-> <<>>]
              ELSE IF x.b = <<>> THEN [ok |-> TRUE, ps |-> <<>>]
              ELSE LET p == ParseAll(x.b) IN
                   IF p.ok /\ p.item.k = "map" THEN [ok |-> TRUE, ps |-> p.item.ps] ELSE [ok |-> FALSE, ps |-> <<>>]

\* protected: definite bstr, empty or wrapping exactly one definite map obeying the rules
WFProtMapItem(m) == /\ m.k = "map"
                    /\ AllNodes(NotIndef, m) /\ AllNodes(NoDupHere, m)
                    /\ ValidParams(m.ps, TRUE)
WFProt(x) ==
  /\ IsBstr(x)
  /\ (x.b # <<>> => (LET p == ParseAll(x.b) IN p.ok /\ WFProtMapItem(p.item)))
\* unprotected: definite map, no tags anywhere in the envelope
WFUnprot(x) ==
  /\ x.k = "map"
  /\ AllNodes(NotIndef, x) /\ AllNodes(NoDupHere, x) /\ AllNodes(NotTag, x)
  /\ ValidParams(x.ps, FALSE)
\* IV and Partial IV never coexist in one layer (across the two buckets)
CrossIVOK(p, u) ==
  LET pm == ProtMap(p) IN
  (pm.ok /\ u.k = "map") =>
     /\ ~(HasLabel(pm.ps, LblIV) /\ HasLabel(u.ps, LblPartialIV))
     /\ ~(HasLabel(pm.ps, LblPartialIV) /\ HasLabel(u.ps, LblIV))
WFSigField(x) == IsBstr(x) /\ x.b # <<>>
WFPayload(x) == IsBstr(x) \/ x = Null
\* COSE_Signature / COSE_Countersignature: definite 3-array with a shortest head
WFSig3(v) ==
  /\ IsArr(v) /\ Len(v.xs) = 3 /\ v.w = 0
  /\ WFProt(v.xs[1]) /\ WFUnprot(v.xs[2]) /\ WFSigField(v.xs[3])
  /\ CrossIVOK(v.xs[1], v.xs[2])

\* ---------------------------------------------------------------------------
\* "documented limits" (C07): what a conforming peer must stay within so that
\* acceptance is demanded.  Everything below is named in the property text or
\* is a limit of the host language's data model (see DESIGN.md 3.2).
\* ---------------------------------------------------------------------------
IntsWithinInt64Here(it) == ~IsIntItem(it) \/ Int64Arg(it.a)
\* keys of maps nested in header values are scalars (Go maps need hashable keys)
ScalarKeysHere(it) == it.k # "map" \/ \A i \in 1..Len(it.ps) : it.ps[i][1].k \in {"uint", "nint", "tstr", "bstr", "simple", "float"}
NoFloatSimpleKeyHere(it) == it.k # "map" \/ \A i \in 1..Len(it.ps) : it.ps[i][1].k \in {"uint", "nint", "tstr", "bstr"}
NoOddSimpleHere(it) == it.k # "simple" \/ it.v \in {20, 21, 22, 23}
NoFloatHere(it) == it.k # "float"
RECURSIVE ValidUtf8(_)
\* conservative: ASCII only counts as certainly-valid text
AsciiOnly(s) == \A i \in 1..Len(s) : s[i] < 128
TextOKHere(it) == it.k # "tstr" \/ AsciiOnly(it.b)
ValidUtf8(s) == AsciiOnly(s)
WithinLimitsItem(it) ==
  /\ AllNodes(IntsWithinInt64Here, it) /\ AllNodes(NoFloatSimpleKeyHere, it)
  /\ AllNodes(NoOddSimpleHere, it) /\ AllNodes(TextOKHere, it) /\ AllNodes(NotTag, it)
  /\ AllNodes(NoFloatHere, it)

=============================================================================
