------------------------------- MODULE Gen_Wire -------------------------------
(***************************************************************************)
(* Generator for C07 / C02 / C09 / C03: conforming messages of every kind  *)
(* and every encoder choice a peer may make inside the structure (head     *)
(* width of every item, key order of every map, h'' vs h'a0'), with the    *)
(* Sig_structure each signer must sign computed by the specification from  *)
(* the wire bytes.  Signature fields hold placeholders (runs of a fill     *)
(* byte) that the harness replaces by real signatures made with the Go     *)
(* standard library over the specification's Sig_structure ("an            *)
(* independent implementation of the RFC").  Mode "mut" additionally       *)
(* applies one structural mutation (C03).                                  *)
(***************************************************************************)
EXTENDS CoseBases, Json
CONSTANTS AlgNs,     \* algorithms as n with alg = -1-n (6 = ES256, 7 = EdDSA, 34 = ES384, 35 = ES512, 36 = PS256 ...)
          Depth,     \* number of respelling steps (encoder choices) explored exhaustively
          BaseIds,   \* which base messages
          Mode,      \* "respell" | "mut"
          MutDepth   \* number of mutations applied in mode "mut" (1 or 2)

SigLen(n) == CASE n \in {6, 7} -> 64 [] n = 34 -> 96 [] n = 35 -> 132 [] n \in {36, 37, 38} -> 256
Fill(slot, n) == [i \in 1..SigLen(n) |-> 160 + slot]
AlgP(n) == <<UInt(1), NInt(n)>>
Pay24 == [i \in 1..24 |-> i]
CsA == Arr(<<BstrW(Map(<<A_ES256>>)), Map(<<>>), Bstr(<<204, 221>>)>>)
CsB == Arr(<<BstrW(Map(<<A_EdDSA, <<UInt(4), Bstr(<<50>>)>>>>)), Map(<<<<UInt(4), Bstr(<<51>>)>>>>), Bstr(<<238>>)>>)

\* size classes: a protected map {1: alg, 4: h'..k bytes..'} whose encoding is exactly plen bytes long
Seq0(k) == [i \in 1..k |-> i % 251]
AlgLen(n) == IF n < 24 THEN 1 ELSE 2                   \* encoded length of the alg value -1-n
KidFor(plen, n) == IF plen <= 28 THEN plen - 4 - AlgLen(n) ELSE plen - 5 - AlgLen(n)
SizedBase(id, n) ==
  LET plen == CASE id = 9 -> 23 [] id = 10 -> 24 [] id = 11 -> 255 [] id = 12 -> 256 [] OTHER -> 30
      pay  == CASE id = 13 -> Seq0(255) [] id = 14 -> Seq0(256) [] id = 11 -> Seq0(23) [] OTHER -> <<1, 2>>
      ext  == IF id = 12 THEN Seq0(24) ELSE IF id = 10 THEN Seq0(23) ELSE <<>>
  IN [kind |-> "sign1", ext |-> ext, payload |-> pay, slots |-> <<n>>,
      tree |-> Arr(<<BstrW(Map(<<AlgP(n), <<UInt(4), Bstr(Seq0(KidFor(plen, n)))>>>>)), Map(<<>>), Bstr(pay), Bstr(Fill(1, n))>>)]

\* deep structures: a value nested n arrays deep; a countersignature that carries a countersignature that carries ... (n levels)
RECURSIVE DeepItem(_)
DeepItem(n) == IF n = 0 THEN UInt(1) ELSE Arr(<<DeepItem(n - 1)>>)
RECURSIVE CsChain(_)
CsChain(n) == IF n = 0 THEN CsA ELSE Arr(<<BstrW(Map(<<A_ES256>>)), Map(<<<<UInt(11), (IF n % 2 = 0 THEN CsChain(n - 1) ELSE Arr(<<CsChain(n - 1)>>))>>>>), Bstr(<<n, 7>>)>>)
\* base = [kind, tree, ext, payload (supplied by verifier when detached), bodyprot (standalone Signature only), slots = <<alg n ...>>]
Base(id, n) ==
  CASE id = 1 -> [kind |-> "sign1", ext |-> <<>>, payload |-> <<1, 2>>, slots |-> <<n>>,
                  tree |-> Arr(<<BstrW(Map(<<AlgP(n)>>)), Map(<<>>), Bstr(<<1, 2>>), Bstr(Fill(1, n))>>)]
    [] id = 2 -> [kind |-> "sign1", ext |-> <<9, 9>>, payload |-> Pay24, slots |-> <<n>>,
                  tree |-> Arr(<<BstrW(Map(<<AlgP(n), <<UInt(2), Arr(<<UInt(3)>>)>>, <<UInt(3), Tstr(<<97, 47, 98>>)>>>>)),
                                 Map(<<<<UInt(4), Bstr(<<49, 49>>)>>, <<UInt(7), CsA>>>>), Bstr(Pay24), Bstr(Fill(1, n))>>)]
    [] id = 3 -> [kind |-> "sign1", ext |-> <<>>, payload |-> <<7>>, slots |-> <<n>>,           \* detached payload
                  tree |-> Arr(<<BstrW(Map(<<AlgP(n), <<Tstr(<<120>>), Map(<<<<UInt(2), UInt(1)>>, <<UInt(1), Arr(<<True>>)>>>>)>>>>)),
                                 Map(<<<<UInt(11), Arr(<<CsA, CsB>>)>>>>), Null, Bstr(Fill(1, n))>>)]
    [] id = 4 -> [kind |-> "sign1", ext |-> <<5>>, payload |-> <<>>, slots |-> <<n>>,           \* no alg, empty protected, external data
                  tree |-> Arr(<<BstrW(Map(<<>>)), Map(<<<<UInt(4), Bstr(<<49>>)>>>>), Bstr(<<>>), Bstr(Fill(1, n))>>)]
    [] id = 5 -> [kind |-> "sign1u", ext |-> <<>>, payload |-> <<1, 2>>, slots |-> <<n>>,
                  tree |-> Arr(<<BstrW(Map(<<AlgP(n), <<UInt(4), Bstr(<<49>>)>>>>)), Map(<<<<UInt(5), Bstr(<<1>>)>>>>), Bstr(<<1, 2>>), Bstr(Fill(1, n))>>)]
    [] id = 6 -> [kind |-> "sign", ext |-> <<>>, payload |-> <<1, 2>>, slots |-> <<n, 7>>,
                  tree |-> Arr(<<BstrW(Map(<<<<UInt(3), UInt(0)>>>>)), Map(<<>>), Bstr(<<1, 2>>),
                                 Arr(<<Arr(<<BstrW(Map(<<AlgP(n)>>)), Map(<<<<UInt(4), Bstr(<<49>>)>>>>), Bstr(Fill(1, n))>>),
                                       Arr(<<BstrW(Map(<<AlgP(7), <<UInt(5), Bstr(<<9>>)>>>>)), Map(<<>>), Bstr(Fill(2, 7))>>)>>)>>)]
    [] id = 7 -> [kind |-> "sign", ext |-> <<3>>, payload |-> <<8>>, slots |-> <<n>>,           \* detached, empty body protected
                  tree |-> Arr(<<BstrW(Map(<<>>)), Map(<<<<UInt(4), Bstr(<<49>>)>>>>), Null,
                                 Arr(<<Arr(<<BstrW(Map(<<AlgP(n)>>)), Map(<<<<UInt(7), CsA>>>>), Bstr(Fill(1, n))>>)>>)>>)]
    [] id \in 9..14 -> SizedBase(id, n)
    [] id = 15 -> [kind |-> "sign1", ext |-> <<>>, payload |-> <<1, 2>>, slots |-> <<n>>,          \* countersignature lists of 3, 1 and 4 entries
                   tree |-> Arr(<<BstrW(Map(<<AlgP(n)>>)), Map(<<<<UInt(7), Arr(<<CsA, CsB, CsA>>)>>, <<UInt(11), Arr(<<CsB>>)>>>>), Bstr(<<1, 2>>), Bstr(Fill(1, n))>>)]
    [] id = 17 -> [kind |-> "sign1", ext |-> <<>>, payload |-> Seq0(32), slots |-> <<n>>,      \* a hash envelope (258 = SHA-256, 259, 260) from a peer
                   tree |-> Arr(<<BstrW(Map(<<AlgP(n), <<UInt(258), NInt(15)>>, <<UInt(259), Tstr(<<97, 47, 98>>)>>, <<UInt(260), Tstr(<<108>>)>>>>)),
                                  Map(<<<<UInt(4), Bstr(<<49>>)>>>>), Bstr(Seq0(32)), Bstr(Fill(1, n))>>)]
    [] id = 16 -> [kind |-> "sig", ext |-> <<>>, payload |-> <<1, 2>>, slots |-> <<n>>,
                   tree |-> Arr(<<BstrW(Map(<<AlgP(n)>>)), Map(<<<<UInt(11), Arr(<<CsA, CsB, CsB, CsA>>)>>>>), Bstr(Fill(1, n))>>)]
    [] id = 20 -> [kind |-> "sign1", ext |-> <<>>, payload |-> <<1, 2>>, slots |-> <<n>>,          \* tagged values inside protected parameters
                   tree |-> Arr(<<BstrW(Map(<<AlgP(n), <<UInt(99), Tag(1, UInt(5))>>, <<Tstr(<<120>>), Tag(37, Bstr(<<1, 2>>))>>,
                                              <<UInt(15), Map(<<<<UInt(6), Tag(1, UInt(7))>>, <<UInt(1), Tag(32, Tstr(<<117>>))>>>>)>>>>)),
                                  Map(<<<<UInt(4), Bstr(<<49>>)>>>>), Bstr(<<1, 2>>), Bstr(Fill(1, n))>>)]
    [] id = 21 -> [kind |-> "sign", ext |-> <<>>, payload |-> <<1, 2>>, slots |-> <<n>>,           \* the same in a signer's protected bucket
                   tree |-> Arr(<<BstrW(Map(<<<<UInt(99), Tag(99999, Arr(<<UInt(1)>>))>>>>)), Map(<<>>), Bstr(<<1, 2>>),
                                  Arr(<<Arr(<<BstrW(Map(<<AlgP(n), <<UInt(98), Tag(32, Tstr(<<117>>))>>>>)), Map(<<>>), Bstr(Fill(1, n))>>)>>)>>)]
    [] id = 22 -> [kind |-> "sign1", ext |-> <<>>, payload |-> <<1, 2>>, slots |-> <<n>>,          \* values nested 10 deep, in both buckets
                   tree |-> Arr(<<BstrW(Map(<<AlgP(n), <<UInt(99), DeepItem(10)>>>>)), Map(<<<<UInt(98), DeepItem(10)>>>>), Bstr(<<1, 2>>), Bstr(Fill(1, n))>>)]
    [] id = 23 -> [kind |-> "sign", ext |-> <<>>, payload |-> <<1, 2>>, slots |-> <<n>>,           \* a signer countersigned five levels deep (single and list forms alternate)
                   tree |-> Arr(<<BstrW(Map(<<<<UInt(3), UInt(0)>>>>)), Map(<<>>), Bstr(<<1, 2>>),
                                  Arr(<<Arr(<<BstrW(Map(<<AlgP(n)>>)), Map(<<<<UInt(11), CsChain(5)>>>>), Bstr(Fill(1, n))>>)>>)>>)]
    [] id = 18 -> [kind |-> "sign1", ext |-> Seq0(255), payload |-> <<1, 2>>, slots |-> <<n>>,      \* external data of 255 bytes (last one-byte length)
                   tree |-> Arr(<<BstrW(Map(<<AlgP(n)>>)), Map(<<>>), Bstr(<<1, 2>>), Bstr(Fill(1, n))>>)]
    [] id = 19 -> [kind |-> "sign1u", ext |-> Seq0(256), payload |-> Seq0(65535), slots |-> <<n>>,   \* payload of 65535 bytes (last two-byte length)
                   tree |-> Arr(<<BstrW(Map(<<AlgP(n)>>)), Map(<<>>), Bstr(Seq0(65535)), Bstr(Fill(1, n))>>)]
    [] id = 8 -> [kind |-> "sig", ext |-> <<>>, payload |-> <<1, 2>>, slots |-> <<n>>,
                  tree |-> Arr(<<BstrW(Map(<<AlgP(n), <<UInt(4), Bstr(<<49>>)>>>>)), Map(<<>>), Bstr(Fill(1, n))>>)]

\* body_protected handed to Signature.Verify for a standalone COSE_Signature (ids 8, 16): h'a10300', length prefix spelled in 2 bytes
StandaloneBodyProt == [Bstr(<<161, 3, 0>>) EXCEPT !.w = 1]

\* all encoder choices at one node
Choices(nd) ==
  RespellMutations(nd)
  \cup (IF nd.k = "bstrw" /\ nd.x = Map(<<>>) THEN {Bstr(<<>>), Bstr(<<160>>)} ELSE {})   \* h'' and h'a0'
\* every node widened to width w at once / every map reversed at once
RECURSIVE WidenAll(_, _)
WidenAll(nd, w) ==
  LET me == IF CanWiden(nd) /\ EffW(nd) < w THEN [nd EXCEPT !.w = w] ELSE nd IN
  CASE nd.k = "arr" -> [me EXCEPT !.xs = [j \in 1..Len(nd.xs) |-> WidenAll(nd.xs[j], w)]]
    [] nd.k = "map" -> [me EXCEPT !.ps = [j \in 1..Len(nd.ps) |-> <<WidenAll(nd.ps[j][1], w), WidenAll(nd.ps[j][2], w)>>]]
    [] nd.k = "bstrw" -> [me EXCEPT !.x = WidenAll(nd.x, w)]
    [] OTHER -> me
RECURSIVE ReverseAll(_)
ReverseAll(nd) ==
  CASE nd.k = "arr" -> [nd EXCEPT !.xs = [j \in 1..Len(nd.xs) |-> ReverseAll(nd.xs[j])]]
    [] nd.k = "map" -> [nd EXCEPT !.ps = Reverse([j \in 1..Len(nd.ps) |-> <<ReverseAll(nd.ps[j][1]), ReverseAll(nd.ps[j][2])>>])]
    [] nd.k = "bstrw" -> [nd EXCEPT !.x = ReverseAll(nd.x)]
    [] OTHER -> nd
\* the COSE structure's own array heads and the 3-array heads of signatures must stay shortest (documented limit)
Protected3or4(tree, p) == LET nd == Get(tree, p) IN nd.k = "arr" /\ Len(nd.xs) \in {3, 4} /\ Len(nd.xs) > 0 /\ nd.xs[1].k \in {"bstrw", "bstr"}
RECURSIVE FixStructHeads(_)
FixStructHeads(nd) ==
  CASE nd.k = "arr" -> LET kids == [j \in 1..Len(nd.xs) |-> FixStructHeads(nd.xs[j])] IN
                       IF Len(nd.xs) \in {3, 4} /\ nd.xs[1].k \in {"bstrw", "bstr"} THEN [nd EXCEPT !.xs = kids, !.w = 0] ELSE [nd EXCEPT !.xs = kids]
    [] nd.k = "map" -> [nd EXCEPT !.ps = [j \in 1..Len(nd.ps) |-> <<nd.ps[j][1], FixStructHeads(nd.ps[j][2])>>]]
    [] OTHER -> nd

VARIABLE st
Init == st = [phase |-> 0]
Pick == st.phase = 0 /\ \E id \in BaseIds : \E n \in AlgNs :
          LET b == Base(id, n) IN st' = [phase |-> 1, id |-> id, d |-> 0, base |-> b, tree |-> b.tree, mut |-> FALSE, nmut |-> 0, top |-> <<>>,
                                         sigop |-> "none", alt |-> "none", vext |-> b.ext]
Respell == /\ st.phase = 1 /\ st.d < Depth /\ ~st.mut
           /\ \E p \in Paths(st.tree) : \E c \in Choices(Get(st.tree, p)) :
                ~(Protected3or4(st.tree, p) /\ c.k = "arr" /\ c.w # 0)
                /\ st' = [st EXCEPT !.d = st.d + 1, !.tree = Put(st.tree, p, c)]
Bulk == /\ st.phase = 1 /\ st.d = 0 /\ ~st.mut
        /\ \E t \in {FixStructHeads(WidenAll(st.tree, w)) : w \in {1, 2, 4, 8}} \cup {ReverseAll(st.tree), FixStructHeads(ReverseAll(WidenAll(st.tree, 2)))} :
             st' = [st EXCEPT !.d = Depth, !.tree = t]
\* C03: structural mutations on top of the encoder choices, corruption of the signature itself, signatures made
\* over something else (other external data / payload / context / signer), verification with other external data
IsSigNode(nd) == nd.k = "bstr" /\ ~nd.indef /\ Len(nd.b) >= 64 /\ nd.b[1] \in {161, 162} /\ \A j \in 1..Len(nd.b) : nd.b[j] = nd.b[1]
SigLenMutations(nd) == { [nd EXCEPT !.b = [j \in 1..k |-> nd.b[1]]] : k \in {Len(nd.b) - 1, Len(nd.b) + 1, Len(nd.b) + 2} }
CanMut == Mode = "mut" /\ st.phase = 1 /\ st.nmut < MutDepth /\ st.top = <<>>
Mutate == /\ CanMut
          /\ \/ \E p \in Paths(st.tree) : \E m \in NodeMutations(Get(st.tree, p)) :
                   st' = [st EXCEPT !.mut = TRUE, !.nmut = st.nmut + 1, !.tree = Put(st.tree, p, m)]
             \* signature of another length; the harness fills the longer placeholder as told by sigop:
             \* "none" = zeros appended, "lead" = zero(s) prepended, "padhalves" = a zero before each half, "midzero" = r || 00 || s
             \/ st.sigop = "none" /\ \E p \in Paths(st.tree) : IsSigNode(Get(st.tree, p)) /\
                   \E lm \in {<<0 - 1, "none">>, <<1, "none">>, <<1, "lead">>, <<1, "midzero">>, <<2, "none">>, <<2, "lead">>, <<2, "padhalves">>} :
                     LET nd == Get(st.tree, p) IN
                     st' = [st EXCEPT !.mut = TRUE, !.nmut = st.nmut + 1, !.sigop = lm[2],
                                      !.tree = Put(st.tree, p, [nd EXCEPT !.b = [j \in 1..(Len(nd.b) + lm[1]) |-> nd.b[1]]])]
             \/ \E b \in TopMutations(Wire(st.base.kind, st.tree)) : st' = [st EXCEPT !.mut = TRUE, !.nmut = st.nmut + 1, !.top = b]
             \/ st.sigop = "none" /\ \E o \in {"flipfirst", "flipmid", "fliplast", "zero", "swaphalves", "wrongkey"} :
                   st' = [st EXCEPT !.mut = TRUE, !.nmut = st.nmut + 1, !.sigop = o]
             \/ st.alt = "none" /\ \E a \in {"ext", "payload", "context", "cross", "bodyprot"} :
                   st' = [st EXCEPT !.mut = TRUE, !.nmut = st.nmut + 1, !.alt = a]
             \/ st.vext = st.base.ext /\ \E x \in {<<>>, <<0>>, st.base.ext \o <<0>>} \ {st.base.ext} :
                   st' = [st EXCEPT !.mut = TRUE, !.nmut = st.nmut + 1, !.vext = x]
Next == Pick \/ Respell \/ Bulk \/ Mutate
Spec == Init /\ [][Next]_st

Bytes == IF st.top # <<>> THEN st.top ELSE Wire(st.base.kind, st.tree)
\* what the signer of slot i actually signed ("alt" variants sign something else than the verifier will rebuild)
AltTbs(b, i) ==
  LET kd == b.kind
      real == TbsOf(kd, Bytes, i, b.ext, b.payload, StandaloneBodyProt)
      r == Body(kd, Bytes)
  IN IF ~r.ok \/ real = <<>> THEN real ELSE
     CASE st.alt = "none" -> real
       [] st.alt = "ext" -> TbsOf(kd, Bytes, i, b.ext \o <<1>>, b.payload, StandaloneBodyProt)
       [] st.alt = "payload" -> IF Len(r.item.xs) = 4 /\ r.item.xs[3].k = "bstr" /\ r.item.xs[3].b # <<>>
                                THEN real   \* attached payload: the structure is rebuilt from the wire, a signer cannot sign another one
                                ELSE TbsOf(kd, Bytes, i, b.ext, b.payload \o <<1>>, StandaloneBodyProt)
       [] st.alt = "context" ->
            IF kd \in {"sign1", "sign1u"}
            THEN SigStructure(r.item.xs[1], r.item.xs[1], b.ext, b.payload)                      \* as if it were a COSE_Signature
            ELSE CountersignStructure("sig", FALSE, SignerProtOf(kd, Bytes, i), SignerProtOf(kd, Bytes, i), b.ext, b.payload, <<>>)
       [] st.alt = "cross" -> IF kd = "sign" /\ Len(b.slots) > 1 THEN TbsOf(kd, Bytes, 3 - i, b.ext, b.payload, StandaloneBodyProt)
                              ELSE Sig1Structure(Bstr(<<160>>), b.ext, b.payload)
       [] st.alt = "bodyprot" -> TbsOf(kd, Bytes, i, b.ext, b.payload, Bstr(<<>>))
Emit == st.phase # 1 \/ (Mode = "mut" /\ ~st.mut) \/
  LET b == st.base IN
  PrintT(<<"CASE", ToJson([id |-> st.id, henv |-> st.id = 17, kind |-> b.kind, wire |-> Bytes, ext |-> st.vext, payload |-> b.payload, mut |-> st.mut,
                           bodyprot |-> Enc(StandaloneBodyProt), sigop |-> st.sigop, alt |-> st.alt,
                           slots |-> [i \in 1..Len(b.slots) |-> [alg |-> 0 - 1 - b.slots[i], fill |-> 160 + i, n |-> SigLen(b.slots[i]),
                                                                tbs |-> TbsOf(b.kind, Bytes, i, st.vext, b.payload, StandaloneBodyProt),
                                                                signtbs |-> AltTbs(b, i)]]])>>)
SizedBaseOK == (st.phase = 1 /\ st.tree = st.base.tree /\ st.top = <<>> /\ st.id \in 9..12) =>
   Len(Enc(st.tree.xs[1].x)) = (CASE st.id = 9 -> 23 [] st.id = 10 -> 24 [] st.id = 11 -> 255 [] st.id = 12 -> 256)
\* property on the specification: encoder choices never leave the conforming set, and never change a
\* Sig_structure except through the protected bytes themselves
StaysConforming == (st.phase = 1 /\ ~st.mut) => Conforming(st.base.kind, Bytes)
=============================================================================
