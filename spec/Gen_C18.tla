------------------------------- MODULE Gen_C18 -------------------------------
(***************************************************************************)
(* C18 as a state machine: threads perform read-only calls (Verify,        *)
(* MarshalCBOR, Countersignature.Verify, VerifyCountersign0,               *)
(* VerifyHashEnvelope, Key.Verifier, Key.MarshalCBOR) on SHARED values     *)
(* with a SHARED verifier, or Sign on their OWN message with a SHARED      *)
(* signer.  A call is Call(t) -> [AtCallback(t) -> Resume(t)] -> Return:   *)
(* the user-supplied Verifier.Verify / Signer.Sign is the only point where *)
(* the library hands control to foreign code, hence the yield point the    *)
(* scheduler can observe and control.  Each action declares the abstract   *)
(* locations it reads and writes; TLC explores every interleaving and      *)
(* checks ReadOnly (shared locations never written), RaceFree (no two      *)
(* concurrently enabled steps conflict) and SeqEquivalent (results equal   *)
(* the sequential ones), and emits every complete schedule for replay.     *)
(***************************************************************************)
EXTENDS Naturals, Sequences, FiniteSets, TLC, Json
CONSTANTS NThreads, CallsPerThread, OpSet

Threads == 1..NThreads
HasCallback(op) == op \in {"verify", "verifysign", "verifycs", "verifycs0", "verifyhenv", "sign"}
\* footprints: abstract locations
Reads(t, op) ==
  CASE op \in {"verify", "marshal"} -> {"msg.headers", "msg.payload", "msg.sig", "verifier"}
    [] op \in {"verifysign", "marshalsign"} -> {"smsg.headers", "smsg.payload", "smsg.sigs", "verifier"}
    [] op = "marshalcs" -> {"cs.headers", "cs.sig"}
    [] op \in {"verifycs", "verifycs0"} -> {"msg.headers", "msg.payload", "msg.sig", "cs.headers", "cs.sig", "verifier"}
    [] op = "verifyhenv" -> {"envelope.bytes", "verifier"}
    [] op \in {"keyverifier", "keymarshal"} -> {"key"}
    [] op = "sign" -> {"signer", ("own" \o ToString(t))}
Writes(t, op) == IF op = "sign" THEN {("own" \o ToString(t))} ELSE {}
Shared == {"smsg.headers", "smsg.payload", "smsg.sigs", "msg.headers", "msg.payload", "msg.sig", "cs.headers", "cs.sig", "verifier", "envelope.bytes", "key", "signer"}

VARIABLES pc,        \* pc[t] in {"idle", "atcb", "done"}
          prog,      \* prog[t]: remaining ops of thread t
          cur,       \* cur[t]: op in progress or "-"
          version,   \* version[loc]: number of writes to a location (abstract memory)
          results,   \* results[t]: sequence of results
          sched,     \* history variable: the schedule so far
          prog0      \* history variable: the programs the threads started with
vars == <<pc, prog, cur, version, results, sched, prog0>>

Programs == [1..CallsPerThread -> OpSet]
Init == /\ pc = [t \in Threads |-> "idle"] /\ cur = [t \in Threads |-> "-"]
        /\ prog \in [Threads -> {[i \in 1..CallsPerThread |-> p[i]] : p \in Programs}]
        /\ version = [loc \in Shared |-> 0]
        /\ results = [t \in Threads |-> <<>>] /\ sched = <<>> /\ prog0 = prog
\* expected result of an op given the memory it saw: read-only ops on unmodified shared values always succeed
Outcome(t, op) == IF \A loc \in Reads(t, op) \cap Shared : version[loc] = 0 THEN "ok" ELSE "corrupted"
Bump(ws) == [loc \in Shared |-> IF loc \in ws THEN version[loc] + 1 ELSE version[loc]]
Call(t) == /\ pc[t] = "idle" /\ prog[t] # <<>>
           /\ LET op == Head(prog[t]) IN
              /\ version' = Bump(Writes(t, op) \cap Shared)
              /\ IF HasCallback(op)
                 THEN pc' = [pc EXCEPT ![t] = "atcb"] /\ cur' = [cur EXCEPT ![t] = op] /\ results' = results /\ prog' = [prog EXCEPT ![t] = Tail(@)]
                 ELSE pc' = pc /\ cur' = cur /\ results' = [results EXCEPT ![t] = Append(@, Outcome(t, op))] /\ prog' = [prog EXCEPT ![t] = Tail(@)]
              /\ sched' = Append(sched, <<t, "call">>) /\ UNCHANGED prog0
Resume(t) == /\ pc[t] = "atcb"
             /\ results' = [results EXCEPT ![t] = Append(@, Outcome(t, cur[t]))]
             /\ pc' = [pc EXCEPT ![t] = "idle"] /\ cur' = [cur EXCEPT ![t] = "-"]
             /\ sched' = Append(sched, <<t, "resume">>)
             /\ UNCHANGED <<prog, version, prog0>>
Next == \E t \in Threads : Call(t) \/ Resume(t)
Spec == Init /\ [][Next]_vars

Finished == \A t \in Threads : pc[t] = "idle" /\ prog[t] = <<>>
\* the properties, on the specification
ReadOnly == \A loc \in Shared : version[loc] = 0
SeqEquivalent == \A t \in Threads : \A i \in 1..Len(results[t]) : results[t][i] = "ok"
\* two threads inside calls never have conflicting footprints
RaceFree == \A a, b \in Threads : (a # b /\ cur[a] # "-" /\ cur[b] # "-") =>
               (Writes(a, cur[a]) \cap (Reads(b, cur[b]) \cup Writes(b, cur[b])) = {})
\* emit each complete schedule once (with the programs it runs)
Emit == ~Finished \/ PrintT(<<"CASE", ToJson([sched |-> sched, nthreads |-> NThreads, progs |-> [t \in Threads |-> prog0[t]], expect |-> [t \in Threads |-> results[t]]])>>)
=============================================================================
