----------------------------- MODULE Trace_Model -----------------------------
(***************************************************************************)
(* Trace validation of recorded programs against CoseModel.  The           *)
(* abstraction function maps the projected Go object / the bytes of the    *)
(* buffer to the model's state (algorithms, kid, payload, retained raw     *)
(* bytes, signature term); a signature's term is known from the signer     *)
(* call that produced its bytes.  Every observed transition                *)
(*     (Abs(pre), Abs(wire)) --action/result--> (Abs(post), Abs(wire'))    *)
(* must be the transition Step allows; a difference is reported under the  *)
(* property it breaks.                                                     *)
(***************************************************************************)
EXTENDS CoseModel, CoseSystem, Json, TraceKit
Tr == ndJsonDeserialize("tr.ndjson")
VARIABLE l

AlgName(h) == IF h.kind = "absent" THEN "none" ELSE IF h.kind = "int" /\ h.neg /\ h.a = <<6>> THEN "A" ELSE IF h.kind = "int" /\ h.neg /\ h.a = <<7>> THEN "B" ELSE "other"
WireAlgName(protItem) ==
  LET pm == ProtMap(protItem) IN
  IF ~pm.ok THEN "other" ELSE IF ~HasLabel(pm.ps, LblAlg) THEN "none"
  ELSE LET v == ValueOf(pm.ps, LblAlg) IN IF v.k = "nint" /\ v.a = <<6>> THEN "A" ELSE IF v.k = "nint" /\ v.a = <<7>> THEN "B" ELSE "other"
KidOfWireMap(u) == IF u.k = "map" /\ HasLabel(u.ps, LblKid) /\ ValueOf(u.ps, LblKid).k = "bstr" /\ Len(ValueOf(u.ps, LblKid).b) = 1 THEN ValueOf(u.ps, LblKid).b[1] ELSE 99
PayloadName(p) == IF p = NilPayload THEN "nil" ELSE IF p = <<1>> THEN "p1" ELSE IF p = <<2>> THEN "p2" ELSE "other"
\* assoc: set of <<bytes, term>> learnt from signer calls
TermOf(bytes, assoc) == IF bytes = <<>> THEN NoSig ELSE IF \E p \in assoc : p[1] = bytes THEN (CHOOSE p \in assoc : p[1] = bytes)[2] ELSE Junk

AbsObj(post, assoc) ==
  LET rp == IF post.rawP = <<>> THEN [ok |-> FALSE] ELSE ParseAll(post.rawP)
      ru == IF post.rawU = <<>> THEN [ok |-> FALSE] ELSE ParseAll(post.rawU)
      ukid == IF HasGoLabel(post.U, LblKid) /\ GoValueOf(post.U, LblKid).t = "bytes" /\ Len(GoValueOf(post.U, LblKid).b) = 1 THEN GoValueOf(post.U, LblKid).b[1] ELSE 99
  IN [palg |-> AlgName(AlgOfBucket(post.P)),
      hasRaw |-> post.rawP # <<>>, ralg |-> (IF rp.ok THEN WireAlgName(rp.item) ELSE "none"), rwide |-> (IF rp.ok /\ rp.item.k = "bstr" THEN rp.item.w # 0 ELSE FALSE),
      ukid |-> ukid, hasRawU |-> post.rawU # <<>>, rukid |-> (IF ru.ok THEN KidOfWireMap(ru.item) ELSE 0),
      payload |-> (IF ObjKind = "sig" THEN "p1" ELSE PayloadName(post.payload)), sig |-> TermOf(post.sig, assoc)]
AbsWire(b, assoc) ==
  LET r == Body(ObjKind, b) n == IF ObjKind = "sig" THEN 3 ELSE 4 IN
  IF b = <<>> \/ ~r.ok \/ Len(r.item.xs) # n THEN NoWire
  ELSE LET it == r.item IN
       MWire(WireAlgName(it.xs[1]), it.xs[1].k = "bstr" /\ it.xs[1].w # 0, KidOfWireMap(it.xs[2]),
            IF ObjKind = "sig" THEN "p1" ELSE IF it.xs[3] = Null THEN "nil" ELSE IF it.xs[3].k = "bstr" THEN PayloadName(it.xs[3].b) ELSE "other",
            IF it.xs[n].k = "bstr" THEN TermOf(it.xs[n].b, assoc) ELSE Junk)
\* fields that carry no information when no raw bytes are retained
Norm(o) == [o EXCEPT !.ralg = IF o.hasRaw THEN o.ralg ELSE "none", !.rwide = o.hasRaw /\ o.rwide, !.rukid = IF o.hasRawU THEN o.rukid ELSE 0]

\* what one observed step may have violated: compare with the model transition from the OBSERVED pre-state
Judge(a, o, w, res, o2, w2) ==
  LET r == Step(o, w, a)
      okAgree == (res = "ok") = (r.res = "ok")
      reached == o.payload # "nil" /\ (IF a.op = "sign" THEN o.sig = NoSig ELSE o.sig # NoSig)
  IN
  CASE a.op = "verify" ->
         (IF ~okAgree THEN {IF r.res \in {"ErrAlgorithmMismatch", "ErrAlgorithmNotFound"} THEN "C04:verify-proceeds-under-another-or-no-algorithm"
                            ELSE IF r.res = "ok" THEN "C01:valid-signature-rejected" ELSE "C03:invalid-signature-accepted"} ELSE {})
         \cup (IF r.res = "ErrAlgorithmMismatch" /\ reached /\ res # "ErrAlgorithmMismatch" THEN {"C04:mismatch-not-reported-as-ErrAlgorithmMismatch"} ELSE {})
         \cup (IF Norm(o2) # Norm(o) THEN {"C18:verify-modified-the-message"} ELSE {})
    [] a.op = "sign" /\ o.sig # NoSig -> {}          \* signing an object that already carries a signature: no property fixes the outcome
    [] a.op = "sign" ->
         (IF ~okAgree THEN {IF r.res \in {"ErrAlgorithmMismatch", "ErrAlgorithmNotFound"} THEN "C04:sign-proceeds-under-another-or-no-algorithm"
                            ELSE IF r.res = "ErrInjected" THEN "C20:signer-error-not-returned" ELSE "C01:signing-verdict-differs"} ELSE {})
         \cup (IF r.res = "ErrAlgorithmMismatch" /\ reached /\ res # "ErrAlgorithmMismatch" THEN {"C04:mismatch-not-reported-as-ErrAlgorithmMismatch"} ELSE {})
         \cup (IF okAgree /\ Norm(o2).sig # Norm(r.obj).sig THEN {IF a.fault # "" \/ r.res # "ok" THEN "C20:signature-stored-despite-failure" ELSE "C02:signature-not-over-the-sig-structure"} ELSE {})
         \cup (IF okAgree /\ r.res = "ok" /\ a.ext = "none" /\ o2.palg # a.alg THEN {"C04:signed-without-the-algorithm-in-the-protected-header"} ELSE {})
    [] a.op = "marshal" ->
         (IF ~okAgree THEN {IF r.res = "ok" THEN "C08:signed-message-not-serialisable" ELSE "C20:unsigned-message-serialised"} ELSE {})
         \cup (IF okAgree /\ r.res = "ok" /\ w2 # r.wire THEN {"C09:serialisation-does-not-reproduce-the-retained-header-bytes-or-content"} ELSE {})
         \cup (IF Norm(o2) # Norm(o) THEN {"C18:marshal-modified-the-message"} ELSE {})
    [] a.op = "unmarshal" ->
         (IF ~okAgree THEN {IF r.res = "ok" THEN "C07:conforming-message-rejected" ELSE "C05:malformed-message-accepted"} ELSE {})
         \cup (IF okAgree /\ r.res = "ok" /\ Norm(o2) # Norm(r.obj) THEN {"C19:decoded-value-is-not-a-function-of-the-bytes"} ELSE {})
         \cup (IF res # "ok" /\ Norm(o2) # Norm(o) THEN {"C19:failed-decode-modified-the-destination"} ELSE {})
    [] OTHER -> {}     \* edits and rewrites are environment steps: their effect is simply observed

\* the Sig_structure over the observed object: every byte string handed to a key must be it (so that equal terms mean equal bytes)
ExtBytes(e) == IF e = "none" THEN <<>> ELSE <<1, 2>>
PayBytes(p) == CASE p = "p1" -> <<1>> [] p = "p2" -> <<2>> [] OTHER -> <<>>
BodyProtItem == ParseAll(<<88, 3, 161, 3, 0>>).item
Expected(post, a, payloadName) ==
  IF ObjKind = "sig" THEN SigStructure(BodyProtItem, LayerProtItem(post), ExtBytes(a.ext), PayBytes(payloadName))
  ELSE Sig1Structure(LayerProtItem(post), ExtBytes(a.ext), IF post.payload = NilPayload THEN <<>> ELSE post.payload)
StructFails(a, obs, payloadName) ==
  LET keyCalls == SelectSeq(obs.calls, LAMBDA x : x.call \in {"Sign", "Verify"}) IN
  IF a.op \in {"sign", "verify"} /\ \E i \in 1..Len(keyCalls) : keyCalls[i].content # Expected(obs.post, a, payloadName)
  THEN {"C02:key-input-is-not-the-sig-structure-over-the-current-fields", "C03:key-input-is-not-the-sig-structure-over-the-current-fields"} ELSE {}
RECURSIVE Walk(_, _, _, _, _, _)
Walk(e, k, o, w, assoc, lastOut) ==
  IF k > Len(e.acts) THEN {} ELSE
  LET a == e.acts[k]
      obs == e.obs[k + 1]
      signs == SelectSeq(obs.calls, LAMBDA c : c.call = "Sign" /\ c.reterr = "ok" /\ c.ret # <<>>)
      \* the term of a fresh signature: what the model says was signed (checked against the recorded signer input below)
      assoc2 == IF a.op = "sign" /\ Len(signs) = 1 THEN assoc \cup {<<signs[1].ret, MSig(a.key, MTbsOf(Step(o, w, a).obj, a.ext))>>} ELSE assoc
      o2raw == IF a.op = "rewire" THEN o ELSE AbsObj(obs.post, assoc2)
      \* a COSE_Signature has no payload of its own: the model's payload is the argument the caller passes
      o2 == IF ObjKind = "sig" THEN [o2raw EXCEPT !.payload = IF a.op = "edit" /\ a.what = "payload" THEN a.vp ELSE o.payload] ELSE o2raw
      out2 == IF a.op \in {"marshal", "rewire"} /\ obs.res = "ok" /\ ~obs.outnil THEN obs.out ELSE lastOut
      w2 == AbsWire(out2, assoc2)
  IN (IF obs.res = "panic" THEN {"C06:panic"} ELSE Judge(a, o, w, obs.res, o2, w2) \cup StructFails(a, obs, o.payload))
     \cup Walk(e, k + 1, o2, w2, assoc2, out2)

Fails(e) == Walk(e, 1, AbsObj(e.obs[1].post, {}), NoWire, {}, <<>>)
\* (the model's own variables are not used here: the recorded programs carry the state)
TInit == l = 1 /\ KitInit /\ Init
TNext == /\ l <= Len(Tr) /\ l' = l + 1
         /\ UNCHANGED vars          \* before Note: all primed variables must be determined when Note is evaluated
         /\ Note(l, Fails(Tr[l]))
TSpec == TInit /\ [][TNext]_<<l, vars>>
Accepted == KitDone(Len(Tr))
=============================================================================
