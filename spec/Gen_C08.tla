------------------------------- MODULE Gen_C08 -------------------------------
(***************************************************************************)
(* Generator for C08: in-memory header buckets with several entries whose  *)
(* insertion/iteration order disagrees with the bytewise order of their    *)
(* encoded keys (10 vs -1, 23 vs 24 vs 256, "a" vs 1000, nested maps with  *)
(* mixed key types), labels spelled with assorted Go integer types,        *)
(* embedded in every structure.  The image is the canonical encoding the   *)
(* specification derives (RFC 8949 4.2.1).                                 *)
(***************************************************************************)
EXTENDS GoValues, Json, SequencesExt
CONSTANTS MaxEntries, Structs

AlgV == [t |-> "alg", neg |-> TRUE, a |-> <<6>>]
CsObj == [P |-> <<<<GoInt("int64", 1), AlgV>>>>, U |-> <<<<GoInt("int", 4), GoBytes(<<7>>)>>>>, sig |-> <<204, 221>>]
CsObj2 == [P |-> <<<<GoInt("int64", 1), [t |-> "alg", neg |-> TRUE, a |-> <<7>>]>>>>, U |-> <<>>, sig |-> <<238, 1>>]
NestedMap == [t |-> "map", ps |-> <<<<GoInt("int64", 2), GoStr(<<120>>)>>, <<GoInt("int", 1), GoBytes(<<1>>)>>, <<GoStr(<<107>>), GoNeg("int8", 0)>>,
                                   <<GoNeg("int64", 24), [t |-> "arr", xs |-> <<GoInt("uint8", 1), [t |-> "bool", v |-> FALSE]>>]>>>>]
Pool ==
  { <<GoInt("int64", 1), AlgV>>, <<GoInt("int", 4), GoBytes(<<49, 50>>)>>, <<GoNeg("int8", 0), GoInt("int", 5)>>,
    <<GoInt("int16", 256), GoStr(<<118>>)>>, <<GoInt("uint8", 24), GoBytes(<<>>)>>, <<GoInt("int64", 23), GoNeg("int32", 99)>>,
    <<GoStr(<<97>>), GoInt("uint16", 300)>>, <<GoInt("int32", 1000), [t |-> "arr", xs |-> <<GoInt("int", 1), GoStr(<<122>>), [t |-> "nil"]>>]>>,
    <<GoStr(<<97, 97>>), NestedMap>>, <<GoInt("int", 10), [t |-> "bool", v |-> TRUE]>>, <<GoNeg("int64", 65536), GoInt("uint32", 70000)>>,
    <<GoInt("uint64", 3), GoStr(<<97, 47, 98>>)>> }
UPool == Pool \cup { <<GoInt("int64", 7), [t |-> "csig", x |-> CsObj]>>, <<GoInt("int", 11), [t |-> "csigs", xs |-> <<CsObj, CsObj2, CsObj>>]>> }

\* protected maps {1: alg, 4: kid} whose encoding is exactly 23 / 24 / 255 / 256 bytes long (bstr head boundaries)
KidOf(n) == <<GoInt("int64", 4), GoBytes([i \in 1..n |-> i % 251])>>
SizedBuckets == { <<<<GoInt("int64", 1), AlgV>>, KidOf(k)>> : k \in {18, 19, 249, 250} }
BigPayload == [i \in 1..5000 |-> (i * 7) % 256]
Buckets(pool) == { SetToSeq(s) : s \in { x \in SUBSET pool : Cardinality(x) <= MaxEntries /\ Cardinality(x) >= 1 } }
Pay == <<1, 2>>
SigB == <<170, 187>>
Fixed == <<<<GoInt("int64", 1), AlgV>>>>
Embed(struct, b) ==
  CASE struct = "prot"    -> [kind |-> "prot", m |-> [P |-> b, U |-> <<>>]]
    [] struct = "unprot"  -> [kind |-> "unprot", m |-> [P |-> <<>>, U |-> b]]
    [] struct = "sign1P"  -> [kind |-> "sign1", m |-> [P |-> b, U |-> <<>>, payload |-> Pay, sig |-> SigB]]
    [] struct = "sign1U"  -> [kind |-> "sign1", m |-> [P |-> Fixed, U |-> b, payload |-> Pay, sig |-> SigB]]
    [] struct = "manyP"   -> [kind |-> "sign1", m |-> [P |-> b, U |-> <<>>, payload |-> Pay, sig |-> SigB]]
    [] struct = "manyU"   -> [kind |-> "sig", m |-> [P |-> Fixed, U |-> b, sig |-> SigB]]
    [] struct = "manysigs" -> [kind |-> "sign", m |-> [P |-> Fixed, U |-> <<>>, payload |-> Pay, sigs |-> [i \in 1..Len(b) |-> [P |-> Fixed, U |-> <<b[i]>>, sig |-> SigB]]]]
    [] struct = "sign1Big" -> [kind |-> "sign1", m |-> [P |-> b, U |-> <<>>, payload |-> BigPayload, sig |-> SigB]]
    [] struct = "signBig"  -> [kind |-> "sign", m |-> [P |-> b, U |-> <<>>, payload |-> BigPayload, sigs |-> <<[P |-> Fixed, U |-> <<>>, sig |-> SigB]>>]]
    [] struct = "sign1uP" -> [kind |-> "sign1u", m |-> [P |-> b, U |-> <<>>, payload |-> NilPayload, sig |-> SigB]]
    [] struct = "sigP"    -> [kind |-> "sig", m |-> [P |-> b, U |-> <<>>, sig |-> SigB]]
    [] struct = "csigU"   -> [kind |-> "csig", m |-> [P |-> Fixed, U |-> b, sig |-> SigB]]
    [] struct = "signP"   -> [kind |-> "sign", m |-> [P |-> b, U |-> <<>>, payload |-> Pay, sigs |-> <<[P |-> Fixed, U |-> <<>>, sig |-> SigB]>>]]
    [] struct = "signsig" -> [kind |-> "sign", m |-> [P |-> Fixed, U |-> <<>>, payload |-> <<>>, sigs |-> <<CsObj, [P |-> b, U |-> b, sig |-> SigB]>>]]
IsU(struct) == struct \in {"unprot", "sign1U", "csigU"}

VARIABLE st
Init == st = [phase |-> 0]
PickStruct == st.phase = 0 /\ \E s \in Structs : st' = [phase |-> 1, struct |-> s]
\* header maps and signature lists whose COUNT crosses the head boundaries 23/24 and 255/256
ManyBuckets == { [i \in 1..n |-> <<GoNeg("int64", 1000 + i * 37), GoInt("int64", i)>>] : n \in {23, 24, 255, 256, 300} }
PickMany == st.phase = 1 /\ st.struct \in {"manyP", "manyU", "manysigs"} /\ \E b \in ManyBuckets : st' = [phase |-> 2, struct |-> st.struct, b |-> b]
PickBucket == st.phase = 1 /\ st.struct \notin {"manyP", "manyU", "manysigs"} /\ \E b \in Buckets(IF IsU(st.struct) THEN UPool ELSE Pool) \cup (IF IsU(st.struct) THEN {} ELSE SizedBuckets) :
                 st' = [phase |-> 2, struct |-> st.struct, b |-> b]
Next == PickStruct \/ PickBucket \/ PickMany
Spec == Init /\ [][Next]_st

Emit == st.phase # 2 \/ LET e == Embed(st.struct, st.b) IN
          PrintT(<<"CASE", ToJson([struct |-> st.struct, kind |-> e.kind, m |-> e.m, image |-> ImageOf(e.kind, e.m)])>>)
\* property on the specification: the canonical image is deterministic CBOR and parses back
ImageDeterministic == st.phase # 2 \/ LET e == Embed(st.struct, st.b) img == ImageOf(e.kind, e.m) IN
   /\ e.kind \in {"prot", "unprot"} \/ Conforming(e.kind, img)
   /\ LET body == IF e.kind = "sign1" THEN Tail(img) ELSE IF e.kind = "sign" THEN Tail(Tail(img)) ELSE img IN IsDetBytes(body)
=============================================================================
