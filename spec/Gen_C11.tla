------------------------------- MODULE Gen_C11 -------------------------------
(***************************************************************************)
(* Generator for C11: COSE_Sign with n = 0..MaxN signers of mixed          *)
(* algorithms; verification with every permutation class of verifiers      *)
(* (identity, each transposition, rotation, one verifier for all),         *)
(* verifier counts n-1, n, n+1, every subset of slots corrupted (garbage,  *)
(* emptied, overwritten with another slot's signature), on the constructed *)
(* message and on the message after a wire round trip; wire images with no *)
(* or empty signatures.  Symbolic signers/verifiers: a signature is valid  *)
(* exactly for the same key name over the same bytes.                      *)
(***************************************************************************)
EXTENDS CoseSystem, Json
CONSTANTS MaxN

AlgOfSlot(i) == CASE i % 3 = 1 -> 0 - 7 [] i % 3 = 2 -> 0 - 8 [] OTHER -> 0 - 37
AlgV(alg) == [t |-> "alg", neg |-> TRUE, a |-> NatToArg(0 - 1 - alg)]
Lay(i) == [P |-> <<<<GoInt("int64", 1), AlgV(AlgOfSlot(i))>>, <<GoInt("int64", 4), GoBytes(<<48 + i>>)>>>>, U |-> <<>>, sig |-> <<>>]
\* the same signer layer as a peer with another encoder would have serialised it: protected map with its keys in the other order
\* and a two-byte length prefix (the library keeps and signs such bytes as they are)
LayNC(i) == Lay(i) @@ [rawP |-> Enc([Bstr(Enc(Map(<<<<ToItem(Lay(i).P[2][1]), ToItem(Lay(i).P[2][2])>>, <<ToItem(Lay(i).P[1][1]), ToItem(Lay(i).P[1][2])>>>>))) EXCEPT !.w = 2])]
Pay == <<1, 2, 3>>
Name(i) == "k" \o ToString(i)
Sg(i) == [kind |-> "sym", name |-> Name(i), alg |-> AlgOfSlot(i), fault |-> ""]
Vf(i) == [kind |-> "sym", name |-> Name(i), alg |-> AlgOfSlot(i), fault |-> ""]
X == [ext |-> <<7>>, extnil |-> FALSE, extempty |-> FALSE]
BodyP == <<<<GoInt("int64", 3), GoInt("int64", 0)>>>>

Ident(n) == [i \in 1..n |-> i]
Swap(n, a, b) == [i \in 1..n |-> IF i = a THEN b ELSE IF i = b THEN a ELSE i]
Rot(n) == [i \in 1..n |-> (i % n) + 1]
\* verifier index lists
VerifierLists(n) ==
  {Ident(n)} \cup {Swap(n, a, b) : a \in 1..n, b \in 1..n} \cup (IF n > 0 THEN {Rot(n), [i \in 1..n |-> 1], SubSeq(Ident(n), 1, n - 1)} ELSE {})
  \cup {Ident(n) \o <<1>>, Ident(n) \o <<n + 1>>}
\* corruption of slot i: "" none, "garbage", "empty", "copy" (overwrite with the next slot's signature)
Corruptions(n) == [1..n -> {"", "garbage", "empty", "emptynonnil", "copy"}]

CorruptSteps(obj, n, c) ==
  LET RECURSIVE go(_)
      go(i) == IF i > n THEN <<>>
               ELSE (CASE c[i] = "" -> <<>>
                       [] c[i] = "garbage" -> <<[op |-> "setsig", obj |-> obj, slot |-> i - 1, sig |-> <<1, 2, 3>>]>>
                       [] c[i] = "empty" -> <<[op |-> "setsig", obj |-> obj, slot |-> i - 1, sig |-> <<>>]>>
                       [] c[i] = "emptynonnil" -> <<[op |-> "setsig", obj |-> obj, slot |-> i - 1, sig |-> <<>>, nonnil |-> TRUE]>>
                       [] c[i] = "copy" -> <<[op |-> "setsig", obj |-> obj, slot |-> i - 1, fromslot |-> (i % n)]>>) \o go(i + 1)
  IN go(1)

Prog(n, vl, c, decoded, nc) ==
  LET obj == IF decoded THEN "m2" ELSE "m" IN
  << [op |-> "new", obj |-> "m", kind |-> "sign", m |-> [P |-> BodyP, U |-> <<>>, payload |-> Pay, sigs |-> [i \in 1..n |-> IF nc THEN LayNC(i) ELSE Lay(i)]]],
     [op |-> "sign", obj |-> "m", signers |-> [i \in 1..n |-> Sg(i)]] @@ X,
     [op |-> "marshal", obj |-> "m", buf |-> "b"] >>
  \o (IF decoded THEN <<[op |-> "unmarshal", obj |-> "m2", kind |-> "sign", buf |-> "b"]>> ELSE <<>>)
  \o (IF n > 0 THEN <<[op |-> "verify", obj |-> obj, verifiers |-> [j \in 1..n |-> Vf(j)]] @@ X>> ELSE <<>>)     \* populate whatever the library might remember
  \o CorruptSteps(obj, n, c)
  \o << [op |-> "marshal", obj |-> obj, buf |-> "b2"],
        [op |-> "probe", obj |-> obj],
        [op |-> "verify", obj |-> obj, verifiers |-> [j \in 1..Len(vl) |-> Vf(vl[j])]] @@ X >>

\* wire images that must be refused: no signatures, an empty signature in some slot
BadImage(n, hole) ==
  ImageOf("sign", [P |-> BodyP, U |-> <<>>, payload |-> Pay,
                   sigs |-> [i \in 1..n |-> [P |-> Lay(i).P, U |-> <<>>, sig |-> IF i = hole THEN <<>> ELSE <<170, 187>>]]])

\* wire images whose slot `hole` holds something that is no COSE_Signature at all: null, undefined, an empty array, a bare bstr
Junk(j) == CASE j = "null" -> Null [] j = "undef" -> Undef [] j = "arr0" -> Arr(<<>>) [] j = "bstr" -> Bstr(<<170, 187>>)
JunkImage(n, hole, j) ==
  <<216, 98>> \o Enc(Arr(<<ProtBstr(BodyP), UnprotMap(<<>>), Bstr(Pay),
                           Arr([i \in 1..n |-> IF i = hole THEN Junk(j) ELSE SigItem([P |-> Lay(i).P, U |-> <<>>, sig |-> <<170, 187>>])])>>))
\* constructed message with a nil slot: cannot be serialised, signed or verified
NilSlotProg(n, hole, what) ==
  << [op |-> "new", obj |-> "m", kind |-> "sign", m |-> [P |-> BodyP, U |-> <<>>, payload |-> Pay,
                                                       sigs |-> [i \in 1..n |-> [P |-> Lay(i).P, U |-> <<>>, sig |-> IF what = "sign" THEN <<>> ELSE <<170, 187>>]]]],
     [op |-> "nilslot", obj |-> "m", slot |-> hole - 1] >>
  \o (CASE what = "marshal" -> <<[op |-> "marshal", obj |-> "m", buf |-> "b"]>>
        [] what = "sign" -> <<[op |-> "sign", obj |-> "m", signers |-> [i \in 1..n |-> Sg(i)]] @@ X>>
        [] what = "verify" -> <<[op |-> "verify", obj |-> "m", verifiers |-> [i \in 1..n |-> Vf(i)]] @@ X>>)
VARIABLE st
Init == st = [phase |-> 0]
PickN == st.phase = 0 /\ \E n \in 0..MaxN : \E dec \in BOOLEAN : \E nc \in BOOLEAN : (nc => n > 0) /\ st' = [phase |-> 1, n |-> n, dec |-> dec, nc |-> nc]
PickV == st.phase = 1 /\ \E vl \in VerifierLists(st.n) : \E c \in Corruptions(st.n) :
           \* either explore verifier lists on the intact message or corruptions under the identity list (and a few mixed)
           (vl = Ident(st.n) \/ \A i \in 1..st.n : c[i] = "" \/ (st.n > 1 /\ vl = Rot(st.n)))
           /\ (st.nc => \A i \in 1..st.n : c[i] = "")
           /\ st' = [phase |-> 2, n |-> st.n, dec |-> st.dec, nc |-> st.nc, vl |-> vl, c |-> [i \in 1..st.n |-> c[i]]]
PickBad == st.phase = 0 /\ \E n \in 0..MaxN : \E hole \in 0..n : (n = 0 \/ hole > 0) /\ st' = [phase |-> 3, n |-> n, hole |-> hole]
\* a key that panics (a faulty HSM driver): the panic may propagate or become an error, but the call must not report success
PanicProg(n, pos, what) ==
  << [op |-> "new", obj |-> "m", kind |-> "sign", m |-> [P |-> BodyP, U |-> <<>>, payload |-> Pay, sigs |-> [i \in 1..n |-> Lay(i)]]] >>
  \o (IF what = "sign"
      THEN << [op |-> "sign", obj |-> "m", signers |-> [i \in 1..n |-> IF i = pos THEN [Sg(i) EXCEPT !.fault = "panic"] ELSE Sg(i)]] @@ X,
              [op |-> "marshal", obj |-> "m", buf |-> "b"] >>
      ELSE << [op |-> "sign", obj |-> "m", signers |-> [i \in 1..n |-> Sg(i)]] @@ X,
              [op |-> "verify", obj |-> "m", verifiers |-> [i \in 1..n |-> IF i = pos THEN [Vf(i) EXCEPT !.fault = "panic"] ELSE Vf(i)]] @@ X >>)
PickPanic == st.phase = 0 /\ \E n \in 1..MaxN : \E pos \in 1..n : \E what \in {"sign", "verify"} : st' = [phase |-> 6, n |-> n, pos |-> pos, what |-> what]
PickJunk == st.phase = 0 /\ \E n \in 1..MaxN : \E hole \in 1..n : \E j \in {"null", "undef", "arr0", "bstr"} : st' = [phase |-> 4, n |-> n, hole |-> hole, j |-> j]
PickNil == st.phase = 0 /\ \E n \in 1..MaxN : \E hole \in 1..n : \E what \in {"marshal", "sign", "verify"} : st' = [phase |-> 5, n |-> n, hole |-> hole, what |-> what]
Next == PickN \/ PickV \/ PickBad \/ PickJunk \/ PickNil \/ PickPanic
Spec == Init /\ [][Next]_st

Emit ==
  CASE st.phase = 2 -> (st.n = 0 /\ st.dec) \/   \* a message without signatures cannot be serialised, hence not decoded
         PrintT(<<"CASE", ToJson([flow |-> "verify", n |-> st.n, dec |-> st.dec, nc |-> st.nc, vl |-> st.vl, c |-> st.c, ext |-> X.ext, steps |-> Prog(st.n, st.vl, st.c, st.dec, st.nc)])>>)
    [] st.phase = 3 ->
         PrintT(<<"CASE", ToJson([flow |-> "baddecode", n |-> st.n, hole |-> st.hole, ext |-> <<>>,
                                  steps |-> <<[op |-> "unmarshal", obj |-> "m", kind |-> "sign", buf |-> "w", bytes |-> BadImage(st.n, st.hole)]>>])>>)
    [] st.phase = 4 ->
         PrintT(<<"CASE", ToJson([flow |-> "baddecode", n |-> st.n, hole |-> st.hole, j |-> st.j, ext |-> <<>>,
                                  steps |-> <<[op |-> "unmarshal", obj |-> "m", kind |-> "sign", buf |-> "w", bytes |-> JunkImage(st.n, st.hole, st.j)]>>])>>)
    [] st.phase = 5 ->
         PrintT(<<"CASE", ToJson([flow |-> "nilslot", n |-> st.n, hole |-> st.hole, what |-> st.what, ext |-> X.ext, steps |-> NilSlotProg(st.n, st.hole, st.what)])>>)
    [] st.phase = 6 ->
         PrintT(<<"CASE", ToJson([flow |-> "panickey", n |-> st.n, pos |-> st.pos, what |-> st.what, ext |-> X.ext, steps |-> PanicProg(st.n, st.pos, st.what)])>>)
    [] OTHER -> TRUE
=============================================================================
