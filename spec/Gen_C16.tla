------------------------------- MODULE Gen_C16 -------------------------------
(***************************************************************************)
(* Generator for C16: ECDSA signatures on the wire are I2OSP(r) || I2OSP(s)*)
(* at the byte length of the curve order.  (1) the crypto.Signer path is   *)
(* fed ASN.1 (r, s) of every length class (full, one/two leading zero      *)
(* bytes, tiny, 1, order-1), under every ES algorithm for every curve;     *)
(* (2) native and opaque signing of many messages; (3) genuinely valid     *)
(* (r, s) with and without leading zero bytes offered to the verifier in   *)
(* every rendering (exact, DER, stripped / extra leading zeros, swapped,   *)
(* truncated, extended, empty).                                            *)
(***************************************************************************)
EXTENDS CoseCrypto, Json
CONSTANTS NativeN, Seeds
OrderMinus1_p256 == <<255, 255, 255, 255, 0, 0, 0, 0, 255, 255, 255, 255, 255, 255, 255, 255, 188, 230, 250, 173, 167, 23, 158, 132, 243, 185, 202, 194, 252, 99, 37, 80>>
OrderMinus1_p384 == <<255, 255, 255, 255, 255, 255, 255, 255, 255, 255, 255, 255, 255, 255, 255, 255, 255, 255, 255, 255, 255, 255, 255, 255, 199, 99, 77, 129, 244, 55, 45, 223, 88, 26, 13, 178, 72, 176, 167, 122, 236, 236, 25, 106, 204, 197, 41, 114>>
OrderMinus1_p521 == <<1, 255, 255, 255, 255, 255, 255, 255, 255, 255, 255, 255, 255, 255, 255, 255, 255, 255, 255, 255, 255, 255, 255, 255, 255, 255, 255, 255, 255, 255, 255, 255, 255, 250, 81, 134, 135, 131, 191, 47, 150, 107, 127, 204, 1, 72, 247, 9, 165, 208, 59, 181, 201, 184, 137, 156, 71, 174, 187, 111, 183, 30, 145, 56, 100, 8>>
OrderMinus1(c) == CASE c = "p256" -> OrderMinus1_p256 [] c = "p384" -> OrderMinus1_p384 [] c = "p521" -> OrderMinus1_p521
Curves == {"p256", "p384", "p521"}
\* a value of exactly k bytes below the order
Val(c, k) == IF k = 0 THEN <<>> ELSE [i \in 1..k |-> IF i = 1 THEN (IF c = "p521" /\ k = 66 THEN 1 ELSE 200) ELSE IF i = 2 THEN 0 ELSE (i * 5) % 256]
\* the same with a first byte below 128 (no sign-padding byte in DER)
ValLow(c, k) == [Val(c, k) EXCEPT ![1] = IF c = "p521" /\ k = 66 THEN 1 ELSE 100]
Classes(c) == LET n == OrderBytes(c) IN
  { Val(c, n), Val(c, n - 1), Val(c, n - 2), Val(c, n - 3), Val(c, n - 4), Val(c, n - 6), Val(c, 2), <<1>>, OrderMinus1(c), Val(c, n \div 2),
    ValLow(c, n), ValLow(c, n - 1), ValLow(c, n - 2), ValLow(c, n - 3), ValLow(c, n - 5), ValLow(c, n - 6) }
BadR(c) == LET n == OrderBytes(c) IN { <<>>, [i \in 1..(n + 1) |-> 200], [i \in 1..(2 * n) |-> 7] }

VARIABLE st
Init == st = [phase |-> 0]
PickRender == st.phase = 0 /\ \E c \in Curves : \E r \in Classes(c) : \E s \in Classes(c) : \E alg \in ESAlgs :
                st' = [phase |-> 1, what |-> "ecdsa-render", curve |-> c, r |-> r, s |-> s, rneg |-> FALSE, alg |-> alg]
PickBad == st.phase = 0 /\ \E c \in Curves : \E r \in BadR(c) \cup {<<5>>} : \E neg \in BOOLEAN :
                (r = <<5>> => neg) /\ st' = [phase |-> 1, what |-> "ecdsa-render", curve |-> c, r |-> r, s |-> <<9>>, rneg |-> neg, alg |-> (CASE c = "p256" -> 0 - 7 [] c = "p384" -> 0 - 35 [] c = "p521" -> 0 - 36)]
PickNative == st.phase = 0 /\ \E c \in Curves : \E p \in {"native", "opaque"} : \E i \in 1..NativeN :
                st' = [phase |-> 1, what |-> "ecdsa-native", curve |-> c, path |-> p, i |-> i]
Renderings == {"exact", "der", "stripr", "strips", "stripboth", "padr", "pads", "padboth", "padboth2", "swap", "empty", "trunc1", "trunc2", "drop1", "ext1", "ext2", "lead1", "lead2", "halfr",
               "ext255", "ext256", "ext512", "ext65536", "lead256", "twice"}      \* lengths that differ from 2n by multiples of 2^8 / 2^16; the exact form twice
PickAccept == st.phase = 0 /\ \E c \in Curves : \E cl \in {"normal", "shortr", "shorts", "strail"} : \E rd \in Renderings : \E sd \in Seeds :
                (cl = "strail" => rd \in {"exact", "trunc1", "ext1"})      \* s ends in a zero byte: cutting it off / adding one more must not be tolerated
                /\ st' = [phase |-> 1, what |-> "ecdsa-accept", curve |-> c, class |-> cl, rendering |-> rd, seed |-> sd]
Next == PickRender \/ PickBad \/ PickNative \/ PickAccept
Spec == Init /\ [][Next]_st
Emit == st.phase # 1 \/ PrintT(<<"CASE", ToJson(st)>>)
\* property on the specification: the rendering is always 2n bytes and decodes back to (r, s)
RenderOK == (st.phase = 1 /\ st.what = "ecdsa-render" /\ ~st.rneg /\ st.r # <<>> /\ Len(st.r) <= OrderBytes(st.curve)) =>
   LET n == OrderBytes(st.curve) out == RenderRS(st.r, st.s, n) IN
   Len(out) = 2 * n /\ StripZeros(SubSeq(out, 1, n)) = st.r /\ StripZeros(SubSeq(out, n + 1, 2 * n)) = st.s
=============================================================================
