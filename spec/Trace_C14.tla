------------------------------ MODULE Trace_C14 ------------------------------
(* Judge for C14: the serialised COSE_Key carries the key's coordinates at full  *)
(* field width, and the round trip returns an equal key, for both halves; the    *)
(* signer built from the decoded key is accepted by the verifier built from the  *)
(* decoded public key.                                                           *)
EXTENDS CoseKey, Json, TraceKit
Tr == ndJsonDeserialize("tr.ndjson")
VARIABLE l

SizeOf(curve) == CASE curve = "p256" -> 32 [] curve = "p384" -> 48 [] curve = "p521" -> 66 [] curve = "ed" -> 32
CrvOf(curve) == CASE curve = "p256" -> 1 [] curve = "p384" -> 2 [] curve = "p521" -> 3 [] curve = "ed" -> 6
IsEC(e) == e.curve # "ed"
KeyMap(b) == LET r == ParseAll(b) IN IF r.ok /\ r.item.k = "map" THEN r.item.ps ELSE <<>>

WireFails(e, b, private) ==
  LET ps == KeyMap(b) n == SizeOf(e.curve) IN
  IF ps = <<>> THEN {"serialised-key-is-not-a-cbor-map"} ELSE
  (IF Kty(ps) # (IF IsEC(e) THEN KtyEC2 ELSE KtyOKP) \/ Crv(ps) # CrvOf(e.curve) THEN {"wrong-kty-or-crv-on-the-wire"} ELSE {})
  \cup (IF Len(KX(ps)) # n \/ (IsEC(e) /\ Len(KY(ps)) # n) THEN {"coordinate-not-full-field-width"} ELSE {})
  \cup (IF StripZeros(KX(ps)) # StripZeros(e.x) \/ (IsEC(e) /\ StripZeros(KY(ps)) # StripZeros(e.y)) THEN {"coordinate-value-changed-on-the-wire"} ELSE {})
  \cup (IF private /\ StripZeros(KD(ps)) # StripZeros(e.d) THEN {"private-scalar-changed-on-the-wire"} ELSE {})
  \cup (IF ~private /\ HasKeyLabel(ps, 0 - 4) THEN {"public-key-carries-private-material"} ELSE {})
  \cup (IF ~IsDetBytes(b) THEN {"serialised-key-not-deterministic-cbor"} ELSE {})

Fails(e) ==
  IF e.stage # "done" THEN {"conversion-step-fails-" \o e.stage}
  ELSE WireFails(e, e.cbor, TRUE) \cup WireFails(e, e.cborpub, FALSE)
       \cup (IF e.cbor2 # e.cbor THEN {"key-encoding-not-reproducible"} ELSE {})
       \cup (IF ~e.copystable THEN {"parsed-key-kept-by-value-changed-when-its-variable-was-parsed-into-again"} ELSE {})
       \cup (IF e.cbor3 # e.cbor THEN {"decoded-key-does-not-reencode-to-the-same-bytes"} ELSE {})
       \cup (IF StripZeros(e.rtd) # StripZeros(e.d) \/ StripZeros(e.rtx) # StripZeros(e.x) \/ StripZeros(e.rty) # StripZeros(e.y) THEN {"private-key-round-trip-differs"} ELSE {})
       \cup (IF StripZeros(e.rtpx) # StripZeros(e.x) \/ StripZeros(e.rtpy) # StripZeros(e.y) THEN {"public-key-round-trip-differs"} ELSE {})
       \cup (IF e.sv # "n/a" /\ (e.sv # "ok" \/ ~e.stdv) THEN {"signature-from-decoded-key-not-accepted"} ELSE {})

TInit == l = 1 /\ KitInit
TNext == /\ l <= Len(Tr) /\ l' = l + 1
         /\ Note(l, Fails(Tr[l]))
TSpec == TInit /\ [][TNext]_l
Accepted == KitDone(Len(Tr))
=============================================================================
