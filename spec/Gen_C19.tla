------------------------------- MODULE Gen_C19 -------------------------------
(***************************************************************************)
(* Generator for C19: every history of length <= MaxLen over one           *)
(* destination variable per decoder (Sign1, untagged, COSE_Sign,           *)
(* Signature, Countersignature, protected and unprotected header bucket):  *)
(* decode valid A, decode valid B (another shape), decode an input that    *)
(* fails early (prefix), in the middle (bad header) or late (IV clash /    *)
(* malformed last signature), overwrite the last input buffer, serialise,  *)
(* overwrite the last output buffer and serialise again.                   *)
(***************************************************************************)
EXTENDS CoseSystem, Json
CONSTANTS MaxLen, DecKinds

AlgV == [t |-> "alg", neg |-> TRUE, a |-> <<6>>]
Alg == <<GoInt("int64", 1), AlgV>>
Kid(b) == <<GoInt("int64", 4), GoBytes(<<b>>)>>
BadKid == <<GoInt("int64", 4), GoInt("int64", 7)>>
Cs == [P |-> <<Alg>>, U |-> <<Kid(55)>>, sig |-> <<204, 221>>]
Cs2 == [P |-> <<Alg, Kid(56)>>, U |-> <<>>, sig |-> <<1, 2>>]
SigA == [P |-> <<Alg>>, U |-> <<>>, sig |-> <<170, 187>>]
SigB == [P |-> <<Alg, Kid(50)>>, U |-> <<<<GoInt("int64", 7), [t |-> "csig", x |-> Cs]>>>>, sig |-> <<1, 2, 3>>]
SigBad == [P |-> <<Alg>>, U |-> <<BadKid>>, sig |-> <<9>>]
SigClash == [P |-> <<<<GoInt("int64", 5), GoBytes(<<1>>)>>>>, U |-> <<<<GoInt("int64", 6), GoBytes(<<1>>)>>>>, sig |-> <<9>>]

Img(kind, x) ==
  CASE kind \in {"sign1", "sign1u"} ->
         (CASE x = "A" -> ImageOf(kind, [P |-> <<Alg>>, U |-> <<Kid(49)>>, payload |-> <<1, 2>>, sig |-> <<170, 187>>])
            [] x = "B" -> ImageOf(kind, [P |-> <<>>, U |-> <<<<GoInt("int64", 11), [t |-> "csigs", xs |-> <<Cs, Cs2>>]>>, <<GoInt("int64", 5), GoBytes(<<7>>)>>>>, payload |-> NilPayload, sig |-> <<1>>])
            [] x = "Z" -> ImageOf(kind, [P |-> <<>>, U |-> <<>>, payload |-> <<>>, sig |-> <<1>>])
            [] x = "E" -> <<0>> \o ImageOf(kind, [P |-> <<Alg>>, U |-> <<>>, payload |-> <<1>>, sig |-> <<1>>])
            [] x = "M" -> ImageOf(kind, [P |-> <<Alg>>, U |-> <<BadKid>>, payload |-> <<3>>, sig |-> <<4>>])
            [] x = "L" -> ImageOf(kind, [P |-> SigClash.P, U |-> SigClash.U, payload |-> <<3>>, sig |-> <<4>>]))
    [] kind = "sign" ->
         (CASE x = "A" -> ImageOf(kind, [P |-> <<Alg>>, U |-> <<>>, payload |-> <<1, 2>>, sigs |-> <<SigA>>])
            [] x = "B" -> ImageOf(kind, [P |-> <<>>, U |-> <<Kid(51)>>, payload |-> NilPayload, sigs |-> <<SigB, SigA, SigB>>])
            [] x = "Z" -> ImageOf(kind, [P |-> <<>>, U |-> <<>>, payload |-> <<>>, sigs |-> <<[P |-> <<>>, U |-> <<>>, sig |-> <<1>>]>>])
            [] x = "E" -> <<216>> \o ImageOf(kind, [P |-> <<>>, U |-> <<>>, payload |-> <<1>>, sigs |-> <<SigA>>])
            [] x = "M" -> ImageOf(kind, [P |-> <<>>, U |-> <<BadKid>>, payload |-> <<1>>, sigs |-> <<SigA>>])
            [] x = "L" -> ImageOf(kind, [P |-> <<Kid(52)>>, U |-> <<>>, payload |-> <<8>>, sigs |-> <<SigB, SigB, SigBad>>]))
    [] kind \in {"sig", "csig"} ->
         (CASE x = "A" -> ImageOf(kind, SigA) [] x = "B" -> ImageOf(kind, SigB) [] x = "Z" -> ImageOf(kind, [P |-> <<>>, U |-> <<>>, sig |-> <<1>>]) [] x = "E" -> <<132>> \o ImageOf(kind, SigA)
            [] x = "M" -> ImageOf(kind, SigBad) [] x = "L" -> ImageOf(kind, SigClash))
    [] kind = "prot" ->
         (CASE x = "A" -> ImageOf(kind, [P |-> <<Alg>>, U |-> <<>>]) [] x = "B" -> ImageOf(kind, [P |-> <<Kid(49), <<GoInt("int64", 3), GoStr(<<97, 47, 98>>)>>>>, U |-> <<>>])
            [] x = "Z" -> <<64>> [] x = "E" -> <<160>> [] x = "M" -> ImageOf(kind, [P |-> <<Alg, BadKid>>, U |-> <<>>]) [] x = "L" -> ImageOf(kind, [P |-> <<Alg, <<GoInt("int64", 2), [t |-> "arr", xs |-> <<GoInt("int64", 9)>>]>>>>, U |-> <<>>]))
    [] kind = "unprot" ->
         (CASE x = "A" -> ImageOf(kind, [P |-> <<>>, U |-> <<Kid(49)>>]) [] x = "B" -> ImageOf(kind, [P |-> <<>>, U |-> <<<<GoInt("int64", 7), [t |-> "csig", x |-> Cs]>>, <<GoStr(<<120>>), GoInt("int64", 1)>>>>])
            [] x = "Z" -> <<160>> [] x = "E" -> <<64>> [] x = "M" -> ImageOf(kind, [P |-> <<>>, U |-> <<BadKid>>]) [] x = "L" -> ImageOf(kind, [P |-> <<>>, U |-> <<Kid(1), <<GoInt("int64", 2), [t |-> "arr", xs |-> <<GoInt("int64", 4)>>]>>>>]))

Ops == {"A", "B", "Z", "E", "M", "L", "si", "m", "so", "o"}       \* "o": decode another message into ANOTHER variable, then look at this one
IsDec(o) == o \in {"A", "B", "Z", "E", "M", "L"}      \* Z: the emptiest valid value (empty buckets, empty payload)
BufIn(i) == "in" \o ToString(i)
BufOut(i) == "out" \o ToString(i)
RECURSIVE Build(_, _, _, _, _)
Build(kind, h, i, lastIn, lastOut) ==
  IF i > Len(h) THEN <<>> ELSE
  LET o == h[i] IN
  IF IsDec(o) THEN <<[op |-> "unmarshal", obj |-> "d", kind |-> kind, buf |-> BufIn(i), bytes |-> Img(kind, o), withfresh |-> TRUE]>> \o Build(kind, h, i + 1, i, lastOut)
  ELSE IF o = "si" THEN (IF lastIn = 0 THEN <<>> ELSE <<[op |-> "scribble", obj |-> "", buf |-> BufIn(lastIn)], [op |-> "probe", obj |-> "d"]>>) \o Build(kind, h, i + 1, lastIn, lastOut)
  ELSE IF o = "o" THEN <<[op |-> "unmarshal", obj |-> "d2", kind |-> kind, buf |-> ("x" \o ToString(i)), bytes |-> Img(kind, IF i % 2 = 0 THEN "A" ELSE "B"), withfresh |-> FALSE],
                         [op |-> "probe", obj |-> "d"]>> \o Build(kind, h, i + 1, lastIn, lastOut)
  ELSE IF o = "m" THEN <<[op |-> "marshal", obj |-> "d", buf |-> BufOut(i)]>> \o Build(kind, h, i + 1, lastIn, i)
  ELSE (IF lastOut = 0 THEN <<>> ELSE <<[op |-> "scribble", obj |-> "", buf |-> BufOut(lastOut)], [op |-> "marshal", obj |-> "d", buf |-> BufOut(i)]>>) \o Build(kind, h, i + 1, lastIn, IF lastOut = 0 THEN 0 ELSE i)
Prog(kind, h) == <<[op |-> "zero", obj |-> "d", kind |-> kind]>> \o Build(kind, h, 1, 0, 0)

VARIABLE st
Init == st = [phase |-> 0]
Pick == st.phase = 0 /\ \E kd \in DecKinds : st' = [phase |-> 1, kind |-> kd, h |-> <<>>]
Extend == st.phase = 1 /\ Len(st.h) < MaxLen /\ \E o \in Ops : st' = [st EXCEPT !.h = Append(st.h, o)]
Next == Pick \/ Extend
Spec == Init /\ [][Next]_st
\* every history is emitted once, when it has its final length or cannot usefully grow
Emit == st.phase # 1 \/ st.h = <<>> \/ Len(st.h) < MaxLen \/
        PrintT(<<"CASE", ToJson([kind |-> st.kind, h |-> st.h, steps |-> Prog(st.kind, st.h)])>>)
\* property on the specification: A and B are valid, E / M / L are not well-formed for their decoder
ImagesAsIntended == st.phase # 1 \/ st.h # <<>> \/ st.kind \in {"prot", "unprot"} \/
   (WFCose(st.kind, Img(st.kind, "A")) /\ WFCose(st.kind, Img(st.kind, "B")) /\ ~WFCose(st.kind, Img(st.kind, "E"))
    /\ ~WFCose(st.kind, Img(st.kind, "M")) /\ ~WFCose(st.kind, Img(st.kind, "L")))
=============================================================================
