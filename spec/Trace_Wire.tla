------------------------------ MODULE Trace_Wire ------------------------------
(***************************************************************************)
(* Judge for the wire-side flow (decode -> verify -> re-encode -> ...):    *)
(* C07 (conforming => accepted and verifies), C02 (verifier input is the   *)
(* Sig_structure of the received bytes), C03 (verdict = cryptographic      *)
(* validity over the received bytes + prechecks), C09 (re-encoding).       *)
(***************************************************************************)
EXTENDS CoseStruct, Json, TraceKit
CONSTANT Prop
Tr == ndJsonDeserialize("tr.ndjson")
VARIABLE l

BodyProtItem(e) == LET r == ParseAll(e.bodyprot) IN IF r.ok THEN r.item ELSE Bstr(<<>>)
ExpTbs(e, i) == TbsOf(e.kind, e.wire, i, e.ext, e.payload, BodyProtItem(e))
NSlots(e) == Len(e.slots)
\* harness-reported facts must agree with what the TLA+ parser sees on the wire
CrossCheck(e) ==
  \* (only where a verdict is judged: a mutation may move the signature bytes into a position that feeds the structure)
  (IF e.dec = "ok" /\ \E i \in 1..NSlots(e) : e.slots[i].tbs # ExpTbs(e, i) THEN {"infra-tbs-mismatch"} ELSE {})
  \cup (IF e.dec = "ok" /\ \E i \in 1..NSlots(e) : i <= NSigs(e.kind, e.wire) /\ e.slots[i].sig # SigBytesOf(e.kind, e.wire, i)
        THEN {"decoded-signature-differs-from-wire"} ELSE {})

\* algorithm agreement between the protected header that is signed and the verifier (RFC 9052 4.4 / property C04)
AlgItemIs(v, alg) == IF alg < 0 THEN (v.k = "nint" /\ v.a = NatToArg(0 - 1 - alg)) ELSE (v.k = "uint" /\ v.a = NatToArg(alg))
AlgAgree(protItem, alg, ext) ==
  LET pm == ProtMap(protItem) IN
  /\ pm.ok
  /\ IF HasLabel(pm.ps, LblAlg) THEN AlgItemIs(ValueOf(pm.ps, LblAlg), alg) ELSE ext # <<>>

AllValid(e) == /\ NSigs(e.kind, e.wire) = NSlots(e)
               /\ \A i \in 1..NSlots(e) : e.slots[i].cv /\ AlgAgree(SignerProtOf(e.kind, e.wire, i), e.slots[i].alg, e.ext)

C07Fails(e) ==
  IF ~Conforming(e.kind, e.wire) THEN {}
  ELSE (IF e.dec # "ok" THEN {"conforming-message-rejected"} ELSE {})
       \cup (IF e.dec = "ok" /\ AllValid(e) /\ e.ver # "ok" THEN {"conforming-independently-signed-message-does-not-verify"} ELSE {})
       \cup (IF e.henv /\ ~e.mut /\ e.ext = <<>> /\ AllValid(e) /\ e.henvres # "ok" THEN {"conforming-hash-envelope-does-not-verify"} ELSE {})

C02Fails(e) ==
  IF e.dec # "ok" THEN {}
  ELSE (IF Len(e.spy) > NSigs(e.kind, e.wire) THEN {"more-verifier-calls-than-signatures"} ELSE {})
       \cup (IF \E j \in 1..Len(e.spy) : j <= NSlots(e) /\ e.spy[j].content # ExpTbs(e, j) THEN {"verifier-input-is-not-the-sig-structure"} ELSE {})
       \cup (IF \E j \in 1..Len(e.spy) : j <= NSlots(e) /\ e.spy[j].sig # SigBytesOf(e.kind, e.wire, j) THEN {"verifier-got-other-signature-bytes"} ELSE {})
       \cup (IF \E j \in 1..Len(e.henvspy) : e.henvspy[j].content # TbsOf(e.kind, e.wire, 1, <<>>, e.payload, BodyProtItem(e)) THEN {"hash-envelope-verifier-input-is-not-the-sig-structure"} ELSE {})

C03Fails(e) ==
  IF e.dec # "ok" THEN {}
  ELSE (IF e.ver = "ok" /\ ~AllValid(e) THEN {"verify-accepts-invalid"} ELSE {})
       \cup (IF e.ver # "ok" /\ AllValid(e) THEN {"verify-rejects-valid"} ELSE {})
       \cup (IF e.ver = "panic" THEN {"panic"} ELSE {})

BodyBytes(kind, b) == IF kind = "sign1" THEN Tail(b) ELSE IF kind = "sign" THEN Tail(Tail(b)) ELSE b
C09Fails(e) ==
  IF e.dec # "ok" THEN {}
  ELSE (IF e.reenc # "ok" THEN {"decoded-message-cannot-be-reencoded"}
        ELSE (IF ~SameUpToAllowedWidths(e.kind, e.re, e.wire) THEN {"reencoding-changes-more-than-length-prefix-widths"} ELSE {})
             \cup (IF IsDetBytes(BodyBytes(e.kind, e.wire)) /\ e.re # e.wire THEN {"deterministic-input-not-reproduced"} ELSE {})
             \cup (IF e.ver = "ok" /\ e.rever # "ok" THEN {"signature-no-longer-verifies-after-reencoding"} ELSE {})
             \cup (IF e.re2 # e.re THEN {"second-cycle-differs"} ELSE {}))
       \cup (IF e.clr = <<>> THEN {"cannot-encode-after-clearing-raw"}
             ELSE (IF e.clr2a # e.clr \/ e.clr2b # e.clr THEN {"canonical-form-not-a-fixed-point"} ELSE {})
                  \* "a canonical form" is a form of THIS message: where the host language represents every header value losslessly
                  \* (no tagged values: a tag-1 time, for one, comes back as a plain integer) it is the deterministic encoding of the same content
                  \cup (IF ConformingTagFree(e.kind, e.wire) /\ e.clr # ClearedPrediction(e.kind, e.wire)
                        THEN {"form-after-discarding-raw-bytes-is-not-the-canonical-encoding-of-the-same-content"} ELSE {}))

Fails(e) ==
  CrossCheck(e) \cup
  (CASE Prop = "C07" -> C07Fails(e) [] Prop = "C02" -> C02Fails(e) [] Prop = "C03" -> C03Fails(e) [] Prop = "C09" -> C09Fails(e))

TInit == l = 1 /\ KitInit
TNext == /\ l <= Len(Tr) /\ l' = l + 1
         /\ Note(l, Fails(Tr[l]))
TSpec == TInit /\ [][TNext]_l
Accepted == KitDone(Len(Tr))
=============================================================================
