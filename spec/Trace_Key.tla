------------------------------- MODULE Trace_Key ------------------------------
(* Trace validation of recorded programs against KeyModel: the projected COSE_Key object is mapped to the model's key; handles and the
   signature follow the model (a handle is what the last successful Signer() / Verifier() returned); every observed step must be the
   transition Step allows from the observed pre-state, as far as the properties fix it. *)
EXTENDS KeyModel, Json, TraceKit
Tr == ndJsonDeserialize("tr.ndjson")
VARIABLE l

OpsName(p) == IF p.opsnil THEN "absent" ELSE
              LET s == {p.ops[i] : i \in 1..Len(p.ops)} IN
              IF s = {} THEN "empty" ELSE IF s = {1} THEN "sign" ELSE IF s = {2} THEN "verify" ELSE IF s = {1, 2} THEN "both" ELSE "other"
AlgClass(p) == IF p.alg = 0 THEN "none" ELSE IF (p.kty = "EC2" /\ p.alg = 0 - 7) \/ (p.kty = "OKP" /\ p.alg = 0 - 8) THEN "ok" ELSE "bad"
AbsKey(p) == Key(p.kty, p.pair, p.hasd, AlgClass(p), OpsName(p))

Judge(a, k, w, s, v, g, o, k2) ==
  LET r == Step(k, w, s, v, g, a)
      okAgree == (o.res = "ok") = (r.res = "ok")
  IN
  CASE a.op = "signer" ->
         (IF ~okAgree THEN {IF r.res = "ok" THEN "C15:no-signer-from-a-key-that-may-sign" ELSE "C15:signer-from-a-key-that-must-not-sign"} ELSE {})
         \cup (IF k2 # k THEN {"C18:read-only-key-operation-modified-the-key"} ELSE {})
    [] a.op = "verifier" ->
         (IF ~okAgree THEN {IF r.res = "ok" THEN "C15:no-verifier-from-a-key-that-may-verify" ELSE "C15:verifier-from-a-key-that-must-not-verify"} ELSE {})
         \cup (IF k2 # k THEN {"C18:read-only-key-operation-modified-the-key"} ELSE {})
    [] a.op = "verify" ->
         (IF r.res # "nohandle" /\ ~okAgree THEN {IF r.res = "ok" THEN "C14:signature-of-the-key's-own-signer-rejected-by-its-verifier" ELSE "C14:signature-accepted-by-the-verifier-of-another-key"} ELSE {})
         \cup (IF k2 # k THEN {"C18:read-only-key-operation-modified-the-key"} ELSE {})
    [] a.op = "sign" ->
         (IF r.res = "ok" /\ o.res # "ok" THEN {"C14:signer-from-key-cannot-sign"} ELSE {})
         \cup (IF k2 # k THEN {"C18:read-only-key-operation-modified-the-key"} ELSE {})
    [] a.op = "marshal" ->
         (IF o.res # "ok" THEN {"C14:key-cannot-be-serialised"} ELSE {})
         \cup (IF k2 # k THEN {"C18:read-only-key-operation-modified-the-key"} ELSE {})
    [] a.op = "unmarshal" ->
         (IF ~okAgree THEN {IF r.res = "ok" THEN "C14:serialised-key-does-not-parse-back" ELSE "C15:key-whose-algorithm-contradicts-its-curve-accepted"} ELSE {})
         \cup (IF okAgree /\ r.res = "ok" /\ k2 # r.key THEN {"C14:parsed-key-differs-from-the-serialised-one"} ELSE {})
         \cup (IF o.res # "ok" /\ k2 # k THEN {"C19:failed-decode-modified-the-key"} ELSE {})
    [] OTHER -> IF k2 # r.key THEN {"infra-edit-not-as-modelled"} ELSE {}

RECURSIVE Walk(_, _, _, _, _, _, _)
Walk(e, i, k, w, s, v, g) ==
  IF i > Len(e.acts) THEN {} ELSE
  LET a == e.acts[i]
      o == e.obs[i + 1]
      k2 == AbsKey(o.post)
      r == Step(k, w, s, v, g, a)
      \* handles, signature and buffer follow what the code actually did
      s2 == IF a.op = "signer" /\ o.res = "ok" THEN Handle(k2.kty, k2.pair) ELSE s
      v2 == IF a.op = "verifier" /\ o.res = "ok" THEN Handle(k2.kty, k2.pair) ELSE v
      g2 == IF a.op = "sign" /\ o.res = "ok" THEN s ELSE g
      w2 == IF a.op = "marshal" /\ o.res = "ok" THEN [present |-> TRUE, key |-> k2] ELSE w
  IN (IF o.res = "panic" THEN {"C06:panic"} ELSE Judge(a, k, w, s, v, g, o, k2))
     \cup Walk(e, i + 1, k2, w2, s2, v2, g2)

Fails(e) == Walk(e, 1, AbsKey(e.obs[1].post), NoWire, NoHandle, NoHandle, NoHandle)
TInit == l = 1 /\ KitInit /\ Init
TNext == /\ l <= Len(Tr) /\ l' = l + 1
         /\ UNCHANGED vars
         /\ Note(l, Fails(Tr[l]))
TSpec == TInit /\ [][TNext]_<<l, vars>>
Accepted == KitDone(Len(Tr))
=============================================================================
