------------------------------- MODULE Gen_C12 -------------------------------
(***************************************************************************)
(* Generator for C12: hash envelopes.  Producer grid: base headers (labels *)
(* 1, 3, 4, 258, 259, 260, 99, "x" in either bucket, several Go spellings, *)
(* caller-supplied raw buckets) x hash algorithm (SHA-256/384/512, unknown *)
(* ids) x digest length (0, size-1, size, size+1) x preimage content type  *)
(* (absent, uint, tstr, wrongly typed) x location.  Consumer grid: validly *)
(* signed COSE_Sign1 messages carrying every combination of the governed   *)
(* labels in either bucket, with right and wrong value types and digest    *)
(* lengths.                                                                *)
(***************************************************************************)
EXTENDS CoseSystem, Json
CONSTANTS Spellings

AlgT(n) == [t |-> "alg", neg |-> TRUE, a |-> NatToArg(n)]            \* alg -1-n
L(t, n) == [t |-> t, neg |-> FALSE, a |-> NatToArg(n)]
Sg == [kind |-> "sym", name |-> "k", alg |-> 0 - 7, fault |-> ""]
Vf == [kind |-> "sym", name |-> "k", alg |-> 0 - 7, fault |-> ""]
Bytes(n) == [i \in 1..n |-> (i * 3) % 256]
HashSize(alg) == CASE alg = 0 - 16 -> 32 [] alg = 0 - 43 -> 48 [] alg = 0 - 44 -> 64 [] OTHER -> 0
HashAlgs == {0 - 16, 0 - 43, 0 - 44, 99, 0 - 7, 0}     \* 0: the reserved id, an unknown hash like any other
HashLens(alg) == IF HashSize(alg) = 0 THEN {0, 5} ELSE {0, HashSize(alg) - 1, HashSize(alg), HashSize(alg) + 1}
Absent == [t |-> "absent"]
Pcts == { Absent, GoInt("uint16", 50), GoInt("int", 0), GoStr(<<97, 47, 98>>), GoStr(<<65, 47, 66>>), GoStr(<<97, 47, 98, 59, 88, 61, 49>>),      \* "a/b", "A/B", "a/b;X=1"
          GoNeg("int64", 0), GoBytes(<<1>>), GoStr(<<>>), [t |-> "simple", v |-> 16] }
Locs == { <<>>, <<104, 116, 116, 112, 58, 47, 47, 120>> }

\* base header entries the caller may already have put in either bucket
BaseEntries(t) ==
  { <<L(t, 1), AlgT(6)>>, <<L(t, 3), GoStr(<<97, 47, 98>>)>>, <<L(t, 4), GoBytes(<<49>>)>>, <<L(t, 99), GoInt("int64", 7)>>,
    <<L(t, 258), AlgT(15)>>, <<L(t, 259), GoInt("int64", 1)>>, <<L(t, 260), GoStr(<<122>>)>>,
    <<L(t, 258), [t |-> "nil"]>>, <<L(t, 259), [t |-> "nil"]>>, <<L(t, 260), [t |-> "nil"]>> } \cup (IF t = "int64" THEN {<<GoStr(<<120>>), GoInt("int64", 1)>>} ELSE {})
\* raw buckets a caller may supply (RawProtected is documented to be ignored; RawUnprotected must not smuggle governed labels)
RawU == { <<>>, <<161, 25, 1, 2, 1>>, <<161, 4, 65, 49>>, <<161, 3, 0>> }      \* none, {258: 1}, {4: h'31'}, {3: 0}
RawP == { <<>>, <<67, 161, 1, 38>> }

Hp(alg, n, pct, loc) == [alg |-> alg, hash |-> Bytes(n), pct |-> pct, loc |-> loc]
ProducerProg(P, U, rawP, rawU, hp) ==
  << [op |-> "signhashenv", obj |-> "", m |-> [P |-> P, U |-> U, rawP |-> rawP, rawU |-> rawU], hp |-> hp, signers |-> <<Sg>>, buf |-> "b"],
     [op |-> "verifyhashenv", obj |-> "r", buf |-> "b", verifiers |-> <<Vf>>] >>

\* consumer side: governed labels in a validly signed message
V258 == { AlgT(15), GoNeg("int64", 42), GoInt("int64", 99), GoStr(<<83>>), GoBytes(<<1>>), [t |-> "simple", v |-> 16], [t |-> "nil"] }
V259 == { GoInt("int64", 50), GoStr(<<97, 47, 98>>), GoStr(<<>>), GoNeg("int64", 0), GoBytes(<<1>>), [t |-> "simple", v |-> 16], [t |-> "bool", v |-> TRUE], [t |-> "nil"] }
V260 == { GoStr(<<122>>), GoStr(<<>>), GoInt("int64", 1), [t |-> "nil"] }
Opt(S) == S \cup {Absent}
Entry(n, v) == IF v.t = "absent" THEN <<>> ELSE <<<<L("int64", n), v>>>>
ConsumerProg(P, U, n) ==
  << [op |-> "new", obj |-> "m", kind |-> "sign1", m |-> [P |-> P, U |-> U, payload |-> Bytes(n), sig |-> <<>>]],
     [op |-> "sign", obj |-> "m", signers |-> <<Sg>>, ext |-> <<>>, extnil |-> TRUE, extempty |-> FALSE],
     [op |-> "marshal", obj |-> "m", buf |-> "b"],
     [op |-> "verifyhashenv", obj |-> "r", buf |-> "b", verifiers |-> <<Vf>>] >>

VARIABLE st
Init == st = [phase |-> 0]
\* producer: one optional base entry in P, one in U, spelled t
PickProdBase == st.phase = 0 /\ \E t \in Spellings : \E pe \in BaseEntries(t) \cup {<<>>} : \E ue \in BaseEntries(t) \cup {<<>>} :
                  st' = [phase |-> 1, side |-> "producer", P |-> (IF pe = <<>> THEN <<>> ELSE <<pe>>), U |-> (IF ue = <<>> THEN <<>> ELSE <<ue>>)]
PickProdRest == st.phase = 1 /\ st.side = "producer" /\
   \/ \E alg \in HashAlgs : \E n \in HashLens(alg) : \E pct \in Pcts : \E loc \in Locs :
        (st.P = <<>> /\ st.U = <<>>) /\ st' = [st EXCEPT !.phase = 2] @@ [hp |-> Hp(alg, n, pct, loc), rawP |-> <<>>, rawU |-> <<>>]
   \/ \E alg \in {0 - 16, 99, 0} : \E pct \in {Absent, GoInt("uint16", 50)} : \E loc \in Locs : \E rp \in RawP : \E ru \in RawU : \E n \in {32, 5} :
        (n = 32 \/ (rp = <<>> /\ ru = <<>>)) /\ st' = [st EXCEPT !.phase = 2] @@ [hp |-> Hp(alg, n, pct, loc), rawP |-> rp, rawU |-> ru]
PickCons == st.phase = 0 /\ \E a \in Opt(V258) : \E b \in Opt(V259) : \E c \in Opt(V260) : \E ct \in Opt({GoInt("int64", 0)}) :
               \E u \in {<<>>} \cup {Entry(258, AlgT(15)), Entry(259, GoInt("int64", 1)), Entry(260, GoStr(<<122>>)), Entry(3, GoInt("int64", 0)), Entry(4, GoBytes(<<1>>)),
                                   Entry(258, [t |-> "nil"]), Entry(259, [t |-> "nil"]), Entry(260, [t |-> "nil"]), Entry(3, [t |-> "nil"])} :
               \E n \in {32, 31, 48, 0} :
               st' = [phase |-> 2, side |-> "consumer", P |-> <<<<L("int64", 1), AlgT(6)>>>> \o Entry(258, a) \o Entry(259, b) \o Entry(260, c) \o Entry(3, ct), U |-> u, n |-> n]
Next == PickProdBase \/ PickProdRest \/ PickCons
Spec == Init /\ [][Next]_st
Emit == st.phase # 2 \/
  IF st.side = "producer"
  THEN PrintT(<<"CASE", ToJson([side |-> "producer", P |-> st.P, U |-> st.U, rawP |-> st.rawP, rawU |-> st.rawU, hp |-> st.hp,
                               steps |-> ProducerProg(st.P, st.U, st.rawP, st.rawU, st.hp)])>>)
  ELSE PrintT(<<"CASE", ToJson([side |-> "consumer", P |-> st.P, U |-> st.U, n |-> st.n, steps |-> ConsumerProg(st.P, st.U, st.n)])>>)
=============================================================================
