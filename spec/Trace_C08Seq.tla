----------------------------- MODULE Trace_C08Seq -----------------------------
(* Judge for the C08 sequences and for helper outputs: an encoding depends on    *)
(* the current value only; what a Sign helper returns is accepted by the          *)
(* corresponding decoder.                                                         *)
EXTENDS CoseSystem, Json, TraceKit
Tr == ndJsonDeserialize("tr.ndjson")
VARIABLE l
SeqFails(e) ==
  LET a == e.obs[2] b == e.obs[4] IN
  (IF a.res # "ok" \/ b.res # "ok" THEN {"valid-message-cannot-be-serialised"} ELSE
   (IF a.out # e.first THEN {"not-the-canonical-image"} ELSE {})
   \cup (IF b.out # e.second THEN {"encoding-does-not-reflect-the-current-value"} ELSE {}))
\* hash-envelope helper: steps signhashenv, verifyhashenv (the C12 producer programs)
HelperFails(e) ==
  LET s == e.obs[1] v == e.obs[2] IN
  IF s.res # "ok" THEN {} ELSE
  (IF ~WFCose("sign1", s.out) THEN {"helper-output-not-wellformed"} ELSE {})
  \cup (IF v.res # "ok" THEN {"helper-output-not-accepted-by-the-corresponding-decoder"} ELSE {})
Fails(e) == IF "first" \in DOMAIN e THEN SeqFails(e) ELSE HelperFails(e)
TInit == l = 1 /\ KitInit
TNext == /\ l <= Len(Tr) /\ l' = l + 1
         /\ Note(l, Fails(Tr[l]))
TSpec == TInit /\ [][TNext]_l
Accepted == KitDone(Len(Tr))
=============================================================================
