------------------------------ MODULE CoseCrypto ------------------------------
(***************************************************************************)
(* Algorithms, key families and the decision tables for NewSigner /        *)
(* NewVerifier (C17), digest equivalence, and the RFC 9053 2.1 rendering   *)
(* of ECDSA signatures (C16).  Integers r, s are minimal big-endian byte   *)
(* sequences.                                                              *)
(***************************************************************************)
EXTENDS CborData

PSAlgs == {0 - 37, 0 - 38, 0 - 39}
ESAlgs == {0 - 7, 0 - 35, 0 - 36}
EdAlgs == {0 - 8}
RSAlgs == {0 - 257, 0 - 258, 0 - 259}
BuiltIn == PSAlgs \cup ESAlgs \cup EdAlgs
HashOf(alg) == CASE alg \in {0 - 7, 0 - 37} -> "sha256" [] alg \in {0 - 35, 0 - 38} -> "sha384" [] alg \in {0 - 36, 0 - 39} -> "sha512" [] OTHER -> "none"

\* key kinds offered to the factories
RsaBits(kk) == CASE kk = "rsa2048e3" -> 2048           \* public exponent 3: small, but the property speaks of the size only
                 [] kk \in {"rsa1024", "rsa1024-opaque"} -> 1024 [] kk \in {"rsa2047", "rsa2047-opaque"} -> 2047 [] kk \in {"rsa2048", "rsa2048-opaque"} -> 2048 [] kk = "rsa3072" -> 3072 [] OTHER -> 0
IsRsa(kk) == RsaBits(kk) > 0
IsEcdsaSignerKey(kk) == kk \in {"p224", "p256", "p384", "p521", "p256-opaque"}
\* public keys: a valid point on a curve that crypto/ecdh supports (P-224 is not supported there)
IsEcdsaVerifierKey(kk) == kk \in {"p256", "p384", "p521"}
\* offcurve: (x, y+1) of a valid P-256 key; offcurve2*: (x, y+2) of the valid key of that curve (same x, same parity of y)
IsEcdsaTyped(kk) == kk \in {"p224", "p256", "p384", "p521", "offcurve", "offcurve2", "offcurve2-p384", "offcurve2-p521", "infinity"}
IsEd(kk) == kk \in {"ed", "ed-opaque"}

\* "ok" | "ErrAlgorithmNotSupported" | "ErrInvalidPubKey" | "err" (an error whose class the property does not fix)
NewSignerVerdict(alg, kk) ==
  CASE alg \in PSAlgs -> IF IsRsa(kk) THEN (IF RsaBits(kk) >= 2048 THEN "ok" ELSE "err") ELSE "ErrInvalidPubKey"
    [] alg \in ESAlgs -> IF IsEcdsaSignerKey(kk) THEN "ok" ELSE "ErrInvalidPubKey"
    [] alg \in EdAlgs -> IF IsEd(kk) THEN "ok" ELSE "ErrInvalidPubKey"
    [] OTHER -> "ErrAlgorithmNotSupported"
NewVerifierVerdict(alg, kk) ==
  CASE alg \in PSAlgs -> IF IsRsa(kk) THEN (IF RsaBits(kk) >= 2048 THEN "ok" ELSE "err") ELSE "ErrInvalidPubKey"
    [] alg \in ESAlgs -> IF IsEcdsaVerifierKey(kk) THEN "ok" ELSE "ErrInvalidPubKey"
    [] alg \in EdAlgs -> IF kk = "ed" THEN "ok" ELSE "ErrInvalidPubKey"
    [] OTHER -> "ErrAlgorithmNotSupported"

\* ---- ECDSA rendering (RFC 9053 2.1): r || s, each left-padded to the byte length of the curve order
OrderBytes(curve) == CASE curve = "p256" -> 32 [] curve = "p384" -> 48 [] curve = "p521" -> 66
I2OSP(v, n) == [i \in 1..(n - Len(v)) |-> 0] \o v          \* v minimal, Len(v) <= n
RenderRS(r, s, n) == I2OSP(r, n) \o I2OSP(s, n)
=============================================================================
