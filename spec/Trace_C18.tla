------------------------------ MODULE Trace_C18 ------------------------------
(* Judge for C18: in every replayed schedule the shared values keep their        *)
(* abstract state at every quiescent point, every call returns what it returns   *)
(* sequentially, encoders produce the sequential bytes, the bytes handed to a    *)
(* key callback are not changed by other threads while the callback runs; the    *)
(* race detector reports nothing under ungated stress; read-only calls leave     *)
(* the projected value unchanged (single-threaded programs).                     *)
EXTENDS Naturals, Sequences, FiniteSets, Json, TraceKit
Tr == ndJsonDeserialize("tr.ndjson")
VARIABLE l

ConcFails(e) ==
  \* a schedule the code did not follow to the end (its own goroutines reached the callbacks in another order): nothing is concluded
  IF e.res # "done" THEN {"incomplete-schedule-" \o e.res} ELSE
  (IF \E i \in 1..Len(e.snaps) : e.snaps[i] # e.init THEN {"shared-value-modified-by-a-read-only-call"} ELSE {})
  \cup (IF e.results # e.expect THEN {"result-differs-from-sequential-execution"} ELSE {})
  \cup (IF ~e.outsok THEN {"encoding-differs-from-sequential-execution"} ELSE {})
  \cup (IF \E i \in 1..Len(e.stable) : ~e.stable[i] THEN {"key-input-overwritten-by-another-thread"} ELSE {})
  \cup (IF e.notes # <<>> THEN {"call-returned-without-reaching-its-key-callback"} ELSE {})
RaceFails(e) ==
  (IF e.races > 0 THEN {"data-race-reported"} ELSE {})
  \cup (IF e.crashed THEN {"runtime-crash-under-concurrency"} ELSE {})
  \cup (IF ~e.crashed /\ e.bad > 0 THEN {"result-differs-from-sequential-execution"} ELSE {})
  \cup (IF ~e.crashed /\ ~e.unchanged THEN {"shared-value-modified-by-a-read-only-call"} ELSE {})
\* single-threaded read-only programs: probe before and after every read-only call
ReadOnlyOps == {"verify", "marshal", "verifycs", "verifycs0", "verifyhashenv"}
SeqFails(e) ==
  IF \E k \in 2..(Len(e.obs) - 1) : e.obs[k].op \in ReadOnlyOps /\ e.obs[k - 1].op = "probe" /\ e.obs[k + 1].op = "probe"
                                    /\ e.obs[k - 1].post # e.obs[k + 1].post
  THEN {"read-only-call-modified-its-argument"} ELSE {}
Fails(e) == CASE e.op = "conc" -> ConcFails(e) [] e.op = "racestress" -> RaceFails(e) [] e.op = "memflow" -> SeqFails(e)
TInit == l = 1 /\ KitInit
TNext == /\ l <= Len(Tr) /\ l' = l + 1
         /\ Note(l, Fails(Tr[l]))
TSpec == TInit /\ [][TNext]_l
Accepted == KitDone(Len(Tr))
=============================================================================
