------------------------------ MODULE Mutations ------------------------------
(***************************************************************************)
(* Structural mutation operators over model trees (DESIGN.md Appendix B).  *)
(* A model tree is a CborData item that may contain "bstrw" nodes (a byte  *)
(* string wrapping an item, i.e. a protected header) so that mutations     *)
(* reach inside protected headers.                                         *)
(***************************************************************************)
EXTENDS CborData

BigUint == [k |-> "uint", a |-> <<128, 0, 0, 0, 0, 0, 0, 0>>, w |-> 0]     \* 2^63: beyond int64
WidenKey(p) == <<[p[1] EXCEPT !.w = Wider(MinW(HeadArg(p[1])))], p[2]>>
ArgOfNode(n) == IF n.k = "bstrw" THEN NatToArg(Len(Enc(n.x) \o n.g)) ELSE HeadArg(n)
\* effective head width of a node (0 = argument inside the initial byte)
EffW(n) == IF n.w # 0 THEN n.w ELSE MinW(ArgOfNode(n))
HasW(n) == n.k \in {"uint", "nint", "bstr", "tstr", "arr", "map", "tag", "bstrw"}
CanWiden(n) == HasW(n) /\ ~(n.k \in {"bstr", "tstr", "arr", "map"} /\ n.indef) /\ EffW(n) < 8

\* replacement nodes for node n (every node of the tree is offered each of these)
NodeMutations(n) ==
  {UInt(0), NInt(0), UInt(300), Bstr(<<>>), Bstr(<<1>>), Tstr(<<97>>), Tstr(<<97, 47, 98>>), Arr(<<>>), Arr(<<UInt(1)>>), Map(<<>>),
   Null, Undef, True, Float16(60, 0), Simple(16), Tag(1, n), Tag(18, n), BigUint,
   RawBytes(<<255>>), RawBytes(<<28>>)}
  \cup (IF n.k \in {"bstr", "tstr", "arr", "map"} THEN {[n EXCEPT !.indef = TRUE]} ELSE {})
  \cup (IF CanWiden(n) THEN {[n EXCEPT !.w = Wider(EffW(n))], [n EXCEPT !.w = Wider(Wider(EffW(n)))]} ELSE {})
  \cup (IF n.k = "arr" THEN {[n EXCEPT !.xs = Append(n.xs, UInt(0))]}
                            \cup (IF n.xs # <<>> THEN {[n EXCEPT !.xs = SubSeq(n.xs, 1, Len(n.xs) - 1)], [n EXCEPT !.xs = Reverse(n.xs)]} ELSE {})
        ELSE {})
  \cup (IF n.k = "map" THEN
          {[n EXCEPT !.ps = Append(n.ps, <<UInt(5), Bstr(<<1>>)>>)], [n EXCEPT !.ps = Append(n.ps, <<UInt(6), Bstr(<<1>>)>>)],
           [n EXCEPT !.ps = Append(n.ps, <<UInt(2), Arr(<<UInt(1)>>)>>)], [n EXCEPT !.ps = Append(n.ps, <<UInt(2), Arr(<<UInt(77)>>)>>)],
           [n EXCEPT !.ps = Append(n.ps, <<Bstr(<<1>>), UInt(0)>>)], [n EXCEPT !.ps = Append(n.ps, <<UInt(3), Tstr(<<97, 98>>)>>)],
           [n EXCEPT !.ps = Append(n.ps, <<UInt(16), Tstr(<<32, 97, 47, 98>>)>>)],
           [n EXCEPT !.ps = Append(n.ps, <<UInt(9), UInt(1)>>)], [n EXCEPT !.ps = Append(n.ps, <<UInt(12), Bstr(<<1>>)>>)],
           [n EXCEPT !.ps = Append(n.ps, <<UInt(7), Arr(<<>>)>>)], [n EXCEPT !.ps = Append(n.ps, <<UInt(4), Tstr(<<49>>)>>)],
           [n EXCEPT !.ps = Append(n.ps, <<UInt(1), Bstr(<<1>>)>>)],
           [n EXCEPT !.ps = Append(n.ps, <<UInt(99), Map(<<<<UInt(1), UInt(1)>>, <<[k |-> "uint", a |-> <<1>>, w |-> 1], UInt(2)>>>>)>>)]}
          \cup (IF n.ps # <<>> THEN {[n EXCEPT !.ps = Append(n.ps, WidenKey(n.ps[1]))], [n EXCEPT !.ps = Tail(n.ps)],
                                      [n EXCEPT !.ps = Reverse(n.ps)]} ELSE {})
        ELSE {})
  \cup (IF n.k = "bstrw" THEN {[n EXCEPT !.g = <<0>>], [n EXCEPT !.g = <<160>>], Bstr(<<>>), Bstr(<<160>>),
                               [n EXCEPT !.x = Arr(<<>>)]} ELSE {})

\* whole-message (byte level) mutations
STail(b) == IF b = <<>> THEN <<>> ELSE Tail(b)
TopMutations(b) ==
  {b \o <<0>>, STail(b), <<216, 18>> \o STail(b), <<210>> \o b, <<216, 98>> \o STail(b), <<216, 98>> \o b, <<210>> \o STail(STail(b)),
   SubSeq(b, 1, Len(b) - 1), SubSeq(b, 1, Len(b) \div 2)}

\* valid re-spellings only (used where acceptance is demanded, C07/C09): widths and key order
RespellMutations(n) ==
  (IF CanWiden(n) THEN {[n EXCEPT !.w = w] : w \in {x \in {1, 2, 4, 8} : x > EffW(n)}} ELSE {})
  \cup (IF n.k = "map" /\ Len(n.ps) > 1 THEN {[n EXCEPT !.ps = Reverse(n.ps)], [n EXCEPT !.ps = Tail(n.ps) \o <<n.ps[1]>>]} ELSE {})
=============================================================================
