------------------------------ MODULE CoseModel ------------------------------
(***************************************************************************)
(* The life cycle of a COSE_Sign1 message object as a state machine, at    *)
(* the abstraction the properties speak about (algorithms, keys, external  *)
(* data, payloads and header parameters are small symbolic values; a       *)
(* signature is the term [key, tbs]).  One object `m` and one byte buffer  *)
(* `w`.  Every public operation is one action, written as the function     *)
(* Step(state, action) so that the same text serves                         *)
(*   - TLC model checking of the properties on the design (MC_Model.cfg),   *)
(*   - generation of random behaviours (-simulate) replayed into the code,  *)
(*   - trace validation of those behaviours (Trace_Model.tla folds Step     *)
(*     over the recorded program).                                          *)
(* The model is implementation shaped: it states what the library does at   *)
(* the granularity of the public API, including the documented consequences *)
(* of editing a decoded message's parsed maps while its raw bytes are kept. *)
(***************************************************************************)
EXTENDS Naturals, Sequences, FiniteSets, TLC

CONSTANTS ObjKind,   \* which structure the object is: "sign1" (tagged), "sign1u" (untagged) or "sig" (a COSE_Signature used on its own)
          Algs,      \* signature algorithms, e.g. {"A", "B"}
          Keys,      \* key names, e.g. {"k1", "k2"}
          KidVals       \* values of the unprotected kid parameter, e.g. {0, 1}
Exts == {"none", "e1"}             \* external data: nil/empty vs some bytes
Payloads == {"nil", "p1", "p2"}    \* nil = detached

MTbs(prot, ext, payload) == [prot |-> prot, ext |-> ext, payload |-> payload]
MSig(key, tbs) == [key |-> key, tbs |-> tbs]
NoSig == MSig("none", MTbs("none", "none", "nil"))      \* no signature bytes
Junk == MSig("junk", MTbs("none", "none", "nil"))       \* bytes that are nobody's signature

\* ---------------------------------------------------------------------------
\* state
\* ---------------------------------------------------------------------------
\* object: parsed protected alg, retained raw protected (alg inside, non-minimal head?), unprotected kid, retained raw unprotected, payload, signature
InitObj == [palg |-> "none", hasRaw |-> FALSE, ralg |-> "none", rwide |-> FALSE, ukid |-> 0, hasRawU |-> FALSE, rukid |-> 0, payload |-> "p1", sig |-> NoSig]
NoWire == [present |-> FALSE]
MWire(palg, wide, ukid, payload, sig) == [present |-> TRUE, palg |-> palg, wide |-> wide, ukid |-> ukid, payload |-> payload, sig |-> sig]

\* the protected content that is signed: the retained bytes when present, else the encoding of the parsed map
ProtOf(o) == IF o.hasRaw THEN o.ralg ELSE o.palg
MTbsOf(o, ext) == MTbs(ProtOf(o), ext, o.payload)

\* ---------------------------------------------------------------------------
\* actions: Step(st, a) = [obj, wire, res]
\* ---------------------------------------------------------------------------
MRes(o, w, res) == [obj |-> o, wire |-> w, res |-> res]

DoSign(o, w, a) ==
  IF o.payload = "nil" THEN MRes(o, w, "ErrMissingPayload")
  ELSE IF o.sig # NoSig THEN MRes(o, w, "err")                                   \* already carries signature bytes
  ELSE LET needInject == o.palg = "none" /\ a.ext = "none" IN
       IF o.palg # "none" /\ o.palg # a.alg THEN MRes(o, w, "ErrAlgorithmMismatch")
       ELSE IF needInject /\ o.hasRaw THEN MRes(o, w, "ErrAlgorithmNotFound")
       ELSE LET o1 == IF needInject THEN [o EXCEPT !.palg = a.alg] ELSE o IN   \* the signer's algorithm is inserted before signing
            CASE a.fault = "err"   -> MRes(o1, w, "ErrInjected")
              [] a.fault = "empty" -> MRes(o1, w, "ok")                           \* an empty signature is stored: the object stays unsigned
              [] OTHER             -> MRes([o1 EXCEPT !.sig = MSig(a.key, MTbsOf(o1, a.ext))], w, "ok")

AlgCheckVerify(o, alg, ext) ==
  IF o.palg # "none" THEN (IF o.palg = alg THEN "ok" ELSE "ErrAlgorithmMismatch")
  ELSE IF ext # "none" THEN "ok" ELSE "ErrAlgorithmNotFound"
DoVerify(o, w, a) ==
  IF o.payload = "nil" THEN MRes(o, w, "ErrMissingPayload")
  ELSE IF o.sig = NoSig THEN MRes(o, w, "ErrEmptySignature")
  ELSE LET c == AlgCheckVerify(o, a.alg, a.ext) IN
       IF c # "ok" THEN MRes(o, w, c)
       ELSE MRes(o, w, IF o.sig = MSig(a.key, MTbsOf(o, a.ext)) THEN "ok" ELSE "ErrVerification")

\* a COSE_Signature carries no payload: the caller passes it to Sign / Verify ("payload" is then the argument the caller uses)
WirePayload(o) == IF ObjKind = "sig" THEN "p1" ELSE o.payload
DoMarshal(o, w) ==
  IF o.sig = NoSig THEN MRes(o, w, "ErrEmptySignature")
  ELSE MRes(o, MWire(ProtOf(o), o.hasRaw /\ o.rwide, IF o.hasRawU THEN o.rukid ELSE o.ukid, WirePayload(o), o.sig), "ok")

DoUnmarshal(o, w) ==
  IF ~w.present THEN MRes(o, w, "err")
  ELSE IF w.sig = NoSig THEN MRes(o, w, "ErrEmptySignature")                    \* a failed decode leaves the destination untouched
  ELSE MRes([palg |-> w.palg, hasRaw |-> TRUE, ralg |-> w.palg, rwide |-> w.wide, ukid |-> w.ukid, hasRawU |-> TRUE, rukid |-> w.ukid,
          payload |-> (IF ObjKind = "sig" THEN o.payload ELSE w.payload), sig |-> w.sig], w, "ok")

\* caller edits (plain field assignments in Go)
DoEdit(o, w, a) ==
  CASE a.what = "palg"     -> MRes([o EXCEPT !.palg = a.va], w, "ok")            \* the parsed map only: retained raw bytes stay
    [] a.what = "ukid"     -> MRes([o EXCEPT !.ukid = a.vk], w, "ok")
    [] a.what = "payload"  -> MRes([o EXCEPT !.payload = a.vp], w, "ok")
    [] a.what = "sig"      -> MRes([o EXCEPT !.sig = IF a.vs = "junk" THEN Junk ELSE NoSig], w, "ok")
    [] a.what = "clearraw" -> MRes([o EXCEPT !.hasRaw = FALSE, !.hasRawU = FALSE, !.rwide = FALSE], w, "ok")
\* the environment rewrites the bytes in transit
DoRewire(o, w, a) ==
  IF ~w.present THEN MRes(o, w, "ok")
  ELSE CASE a.what = "palg"    -> MRes(o, [w EXCEPT !.palg = a.va], "ok")
         [] a.what = "wide"    -> MRes(o, [w EXCEPT !.wide = a.vb], "ok")          \* re-spelling of the protected bstr head: same content
         [] a.what = "ukid"    -> MRes(o, [w EXCEPT !.ukid = a.vk], "ok")
         [] a.what = "payload" -> MRes(o, IF ObjKind = "sig" THEN w ELSE [w EXCEPT !.payload = a.vp], "ok")
         [] a.what = "sig"     -> MRes(o, [w EXCEPT !.sig = IF a.vs = "junk" THEN Junk ELSE NoSig], "ok")

Step(o, w, a) ==
  CASE a.op = "sign"      -> DoSign(o, w, a)
    [] a.op = "verify"    -> DoVerify(o, w, a)
    [] a.op = "marshal"   -> DoMarshal(o, w)
    [] a.op = "unmarshal" -> DoUnmarshal(o, w)
    [] a.op = "edit"      -> DoEdit(o, w, a)
    [] a.op = "rewire"    -> DoRewire(o, w, a)

Actions ==
  { [op |-> "sign", alg |-> al, key |-> k, ext |-> e, fault |-> f] : al \in Algs, k \in Keys, e \in Exts, f \in {"", "err", "empty"} }
  \cup { [op |-> "verify", alg |-> al, key |-> k, ext |-> e] : al \in Algs, k \in Keys, e \in Exts }
  \cup { [op |-> "marshal"], [op |-> "unmarshal"] }
  \cup { [op |-> "edit", what |-> "palg", va |-> x] : x \in Algs \cup {"none"} }
  \cup { [op |-> "edit", what |-> "ukid", vk |-> x] : x \in KidVals }
  \cup { [op |-> "edit", what |-> "payload", vp |-> x] : x \in Payloads }
  \cup { [op |-> "edit", what |-> "sig", vs |-> x] : x \in {"none", "junk"} }
  \cup { [op |-> "edit", what |-> "clearraw"] }
  \cup { [op |-> "rewire", what |-> "palg", va |-> x] : x \in Algs \cup {"none"} }
  \cup { [op |-> "rewire", what |-> "wide", vb |-> x] : x \in BOOLEAN }
  \cup { [op |-> "rewire", what |-> "ukid", vk |-> x] : x \in KidVals }
  \cup { [op |-> "rewire", what |-> "payload", vp |-> x] : x \in Payloads }
  \cup { [op |-> "rewire", what |-> "sig", vs |-> x] : x \in {"none", "junk"} }

\* ---------------------------------------------------------------------------
\* the state machine
\* ---------------------------------------------------------------------------
VARIABLES obj, wire, last, hist
vars == <<obj, wire, last, hist>>
CONSTANTS MaxHist,         \* bound on the history variable (length of emitted behaviours)
          Record           \* TRUE: keep the history (generation of behaviours); FALSE: plain model checking

Init == obj = InitObj /\ wire = NoWire /\ last = [a |-> [op |-> "init"], res |-> "ok"] /\ hist = <<>>
Next == /\ Record => Len(hist) < MaxHist
        /\ \E a \in Actions :
             LET r == Step(obj, wire, a) IN
             /\ obj' = r.obj /\ wire' = r.wire
             /\ last' = [a |-> a, res |-> r.res]
             /\ hist' = IF Record THEN Append(hist, a) ELSE hist
Spec == Init /\ [][Next]_vars

\* ---------------------------------------------------------------------------
\* the properties on the model
\* ---------------------------------------------------------------------------
\* the parsed map and the retained bytes agree (true unless the caller edits the map of a decoded message)
Consistent(o) == ~o.hasRaw \/ o.palg = o.ralg

\* The properties are stated over one transition: obj / wire are the state before the call, last' names the call
\* and its result, obj' / wire' are the state after it.  (State predicates are stated over obj alone.)
\* C03: verification succeeds exactly for the signature term over the object's current content
C03_Exact == [][ last'.a.op = "verify" =>
   (last'.res = "ok" <=> /\ obj.payload # "nil" /\ obj.sig = MSig(last'.a.key, MTbsOf(obj, last'.a.ext))
                         /\ AlgCheckVerify(obj, last'.a.alg, last'.a.ext) = "ok") ]_vars
\* C04: no signing / verification under another algorithm than the header's; without alg and external data nothing verifies
C04_Agreement == [][
  LET a == last'.a
      mismatch == a.op \in {"sign", "verify"} /\ obj.palg # "none" /\ obj.palg # a.alg
      reached == obj.payload # "nil" /\ (IF a.op = "sign" THEN obj.sig = NoSig ELSE obj.sig # NoSig)   \* earlier checks pass
  IN /\ (mismatch => last'.res # "ok")
     /\ ((mismatch /\ reached) => last'.res = "ErrAlgorithmMismatch")
     /\ ((a.op = "verify" /\ obj.palg = "none" /\ a.ext = "none") => last'.res # "ok")
     /\ ((a.op = "sign" /\ last'.res = "ok" /\ a.ext = "none") => obj'.palg = a.alg) ]_vars
\* C01: a successful signing is verified by the same key, algorithm and external data
C01_SignThenVerify == [][ (last'.a.op = "sign" /\ last'.res = "ok" /\ last'.a.fault = "") =>
   DoVerify(obj', wire', [op |-> "verify", alg |-> last'.a.alg, key |-> last'.a.key, ext |-> last'.a.ext]).res = "ok" ]_vars
\* C01 / C09: serialising and parsing back changes no verification verdict (for consistent objects)
C09_RoundTrip == (obj.sig # NoSig /\ Consistent(obj)) =>
   LET m == DoMarshal(obj, wire) u == DoUnmarshal(obj, m.wire) IN
   /\ m.res = "ok" /\ u.res = "ok"
   /\ \A al \in Algs, k \in Keys, e \in Exts :
        DoVerify(u.obj, m.wire, [op |-> "verify", alg |-> al, key |-> k, ext |-> e]).res = DoVerify(obj, wire, [op |-> "verify", alg |-> al, key |-> k, ext |-> e]).res
   /\ DoMarshal(u.obj, m.wire).wire = m.wire                                  \* re-encoding a decoded message reproduces it
\* C02: the protected bstr head width never reaches the signed bytes
C02_HeadIrrelevant == \A e \in Exts : MTbsOf(obj, e) = MTbsOf([obj EXCEPT !.rwide = ~obj.rwide], e)
\* C19: a failed decode leaves the destination as it was
C19_Atomic == [][ (last'.a.op = "unmarshal" /\ last'.res # "ok") => obj' = obj ]_vars
\* C20: a failing signer stores nothing; nothing unsigned can be serialised
C20_NoHalfSigned == [][ /\ ((last'.a.op = "sign" /\ last'.res # "ok") => obj'.sig = obj.sig)
                        /\ ((last'.a.op = "sign" /\ last'.a.fault # "" /\ obj.sig = NoSig) => obj'.sig = NoSig)
                        /\ ((last'.a.op = "marshal" /\ last'.res = "ok") => wire'.sig # NoSig) ]_vars
\* C18: verification and serialisation never change the object
C18_ReadOnly == [][ last'.a.op \in {"verify", "marshal"} => obj' = obj ]_vars
\* unprotected content never influences a verdict
C03_UnprotectedIrrelevant == \A al \in Algs, k \in Keys, e \in Exts, kid \in KidVals :
   DoVerify([obj EXCEPT !.ukid = kid, !.rukid = kid], wire, [op |-> "verify", alg |-> al, key |-> k, ext |-> e]).res
     = DoVerify(obj, wire, [op |-> "verify", alg |-> al, key |-> k, ext |-> e]).res
\* model checking looks at the object and the buffer only (the bookkeeping variables do not influence behaviour)
View == <<obj, wire>>
=============================================================================
