------------------------------ MODULE Trace_C13 ------------------------------
(* Judge for C13: header rules hold for whatever is produced or accepted, and *)
(* encode and decode give the same verdict for every in-model header set,     *)
(* whatever Go integer type spells a label.                                   *)
EXTENDS GoValues, Json, TraceKit
Tr == ndJsonDeserialize("tr.ndjson")
VARIABLE l

Valid(kind, b) ==
  CASE kind \in Kinds -> WFCose(kind, b)
    [] kind = "prot" -> LET r == ParseAll(b) IN r.ok /\ WFProt(r.item)
    [] kind = "unprot" -> LET r == ParseAll(b) IN r.ok /\ WFUnprot(r.item)
MInModel(kind, m) == LayerInModel(m) /\ (kind = "sign" => \A i \in 1..Len(m.sigs) : LayerInModel(m.sigs[i]))

DeRawMsg(kind, m) == IF kind = "sign" THEN [DeRawLayer(m) EXCEPT !.sigs = [i \in 1..Len(m.sigs) |-> DeRawLayer(m.sigs[i])]] ELSE DeRawLayer(m)
Fails(e) ==
  LET inm == MInModel(e.kind, e.m)
      judgeable == MInModel(e.kind, DeRawMsg(e.kind, e.m)) IN
  (IF e.image # ImageOf(e.kind, e.m) THEN {"infra-image-mismatch"} ELSE {})
  \cup (IF judgeable /\ e.enc = "ok" /\ ~Valid(e.kind, e.out) THEN {"produced-invalid"} ELSE {})
  \cup (IF e.dec = "ok" /\ ~Valid(e.kind, e.image) THEN {"accepted-invalid"} ELSE {})
  \cup (IF inm /\ e.enc = "ok" /\ e.dec # "ok" THEN {"encode-accepts-decode-refuses"} ELSE {})
  \cup (IF inm /\ e.enc # "ok" /\ e.dec = "ok" THEN {"encode-refuses-decode-accepts"} ELSE {})
  \cup (IF e.enc = "panic" \/ e.dec = "panic" \/ e.decused = "panic" THEN {"panic"} ELSE {})
  \* the verdict on the bytes is the verdict of the rules: not of what the destination held before
  \cup (IF ~e.priorok THEN (IF Valid(e.kind, e.prior) THEN {"valid-header-set-refused-after-other-decodes"} ELSE {"infra-prior-image-not-valid"}) ELSE {})
  \cup (IF ~e.badrefused THEN (IF ~Valid(e.kind, e.bad) THEN {"invalid-header-set-accepted-after-other-decodes"} ELSE {"infra-refused-image-is-valid"}) ELSE {})
  \cup (IF e.priorok /\ e.decused # e.dec THEN {"decode-verdict-depends-on-what-the-destination-held-before"} ELSE {})
  \cup (IF ~e.usedsame THEN {"decoded-headers-depend-on-what-the-destination-held-before"} ELSE {})
  \cup (IF e.decafterbad # e.dec \/ ~e.afterbadsame THEN {"decoding-depends-on-an-earlier-refused-decode"} ELSE {})

TInit == l = 1 /\ KitInit
TNext == /\ l <= Len(Tr) /\ l' = l + 1
         /\ Note(l, Fails(Tr[l]))
TSpec == TInit /\ [][TNext]_l
Accepted == KitDone(Len(Tr))
=============================================================================
