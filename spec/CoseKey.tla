------------------------------- MODULE CoseKey -------------------------------
(***************************************************************************)
(* COSE_Key (RFC 9052 section 7, RFC 9053 section 7) as the properties C14 *)
(* and C15 see it: key types, curves, coordinate sizes, the algorithm a    *)
(* key fixes, and the gates for turning a key into a signer or verifier.   *)
(* A wire key is the pair sequence of a parsed CBOR map.                   *)
(***************************************************************************)
EXTENDS CoseStruct

KtyOKP == 1   KtyEC2 == 2   KtySymmetric == 4
CrvP256 == 1  CrvP384 == 2  CrvP521 == 3  CrvX25519 == 4  CrvX448 == 5  CrvEd25519 == 6  CrvEd448 == 7
CurveSize(crv) == CASE crv = CrvP256 -> 32 [] crv = CrvP384 -> 48 [] crv = CrvP521 -> 66 [] crv = CrvEd25519 -> 32 [] OTHER -> 0
\* algorithm fixed by (kty, crv): 0 = none
DeriveAlg(kty, crv) ==
  CASE kty = KtyEC2 /\ crv = CrvP256 -> 0 - 7 [] kty = KtyEC2 /\ crv = CrvP384 -> 0 - 35 [] kty = KtyEC2 /\ crv = CrvP521 -> 0 - 36
    [] kty = KtyOKP /\ crv = CrvEd25519 -> 0 - 8 [] OTHER -> 0

\* small integer value of an item (only for |v| < 2^16), "none" otherwise
SmallInt(it) == IF it.k = "uint" /\ Len(it.a) <= 2 THEN ArgToNat(it.a)
                ELSE IF it.k = "nint" /\ Len(it.a) <= 2 THEN 0 - 1 - ArgToNat(it.a) ELSE 99999
IsNIntN(it, n) == it.k = "nint" /\ it.a = NatToArg(n)          \* label -1-n
HasKeyLabel(ps, lbl) == \E i \in 1..Len(ps) : SmallInt(ps[i][1]) = lbl /\ IsIntItem(ps[i][1])
KeyVal(ps, lbl) == ps[CHOOSE i \in 1..Len(ps) : SmallInt(ps[i][1]) = lbl /\ IsIntItem(ps[i][1])][2]
BytesOf(ps, lbl) == IF HasKeyLabel(ps, lbl) /\ IsBstr(KeyVal(ps, lbl)) THEN KeyVal(ps, lbl).b ELSE <<>>
IntOf(ps, lbl) == IF HasKeyLabel(ps, lbl) THEN SmallInt(KeyVal(ps, lbl)) ELSE 99999

Kty(ps) == IntOf(ps, 1)
Crv(ps) == IntOf(ps, 0 - 1)
AlgPresent(ps) == HasKeyLabel(ps, 3) /\ IntOf(ps, 3) # 0
KX(ps) == BytesOf(ps, 0 - 2)
KY(ps) == BytesOf(ps, 0 - 3)
KD(ps) == BytesOf(ps, 0 - 4)
\* key_ops: present?, and the set of operations named (ints, or "sign"/"verify" text)
OpsPresent(ps) == HasKeyLabel(ps, 4)
OpNames(v) == IF v.k # "arr" THEN {} ELSE
  { IF v.xs[i].k = "tstr" THEN (IF v.xs[i].b = <<115, 105, 103, 110>> THEN 1 ELSE IF v.xs[i].b = <<118, 101, 114, 105, 102, 121>> THEN 2 ELSE 77)
    ELSE SmallInt(v.xs[i]) : i \in 1..Len(v.xs) }
OpsAllow(ps, op) == ~OpsPresent(ps) \/ op \in OpNames(KeyVal(ps, 4))

\* C15: what every accepted COSE_Key must satisfy
CurveOKFor(kty, crv) ==
  CASE kty = KtyEC2 -> crv # 99999 /\ crv # 0 /\ crv \notin {CrvX25519, CrvX448, CrvEd25519, CrvEd448}
    [] kty = KtyOKP -> crv # 99999 /\ crv # 0 /\ crv \notin {CrvP256, CrvP384, CrvP521}
    [] OTHER -> TRUE
SizesOK(ps) ==
  LET kty == Kty(ps) crv == Crv(ps) n == CurveSize(crv) IN
  CASE kty = KtyEC2 /\ n > 0 -> Len(KX(ps)) <= n /\ Len(KY(ps)) <= n /\ Len(KD(ps)) <= n
    [] kty = KtyOKP /\ crv = CrvEd25519 -> Len(KX(ps)) \in {0, 32} /\ Len(KD(ps)) \in {0, 32}
    [] OTHER -> TRUE
AcceptedKeyOK(it) ==
  /\ it.k = "map" /\ AllNodes(NoDupHere, it)
  /\ \A i \in 1..Len(it.ps) : IsLabel(it.ps[i][1])
  /\ LET ps == it.ps kty == Kty(ps) IN
     /\ kty # 0 /\ kty # 99999
     /\ (kty \in {KtyEC2, KtyOKP} =>
           (CurveOKFor(kty, Crv(ps)) /\ SizesOK(ps) /\ (AlgPresent(ps) => (IntOf(ps, 3) = DeriveAlg(kty, Crv(ps))))))
\* gates
SignerAllowed(ps) == Kty(ps) \in {KtyEC2, KtyOKP} /\ KD(ps) # <<>> /\ OpsAllow(ps, 1) /\ DeriveAlg(Kty(ps), Crv(ps)) # 0
VerifierAllowed(ps) == /\ Kty(ps) \in {KtyEC2, KtyOKP} /\ KX(ps) # <<>> /\ (Kty(ps) = KtyEC2 => KY(ps) # <<>>)
                       /\ OpsAllow(ps, 2) /\ DeriveAlg(Kty(ps), Crv(ps)) # 0
=============================================================================
