------------------------------- MODULE Gen_C10 -------------------------------
(***************************************************************************)
(* Generator for C10: countersignatures.  4 parent kinds x pointer/value   *)
(* x full/abbreviated x constructed / decoded parent (decoded from a wire  *)
(* image whose protected bstr has a non-minimal length prefix) x external  *)
(* data; then one mutation of the parent (payload, signature, protected    *)
(* bucket, unprotected bucket, detaching) before verification; unsigned /  *)
(* payload-less parents; replay of a countersignature as a message         *)
(* signature and as the other countersignature form.                       *)
(***************************************************************************)
EXTENDS CoseSystem, Json
CONSTANTS Deep,     \* TRUE: more parent/countersigner header shapes, head widths of the decoded parent, real keys
          DeepWidths \* head widths of the decoded parent's protected bstr explored by the deep variants (0 = constructed parent)

AlgV == [t |-> "alg", neg |-> TRUE, a |-> <<6>>]
P1 == <<<<GoInt("int64", 1), AlgV>>, <<GoInt("int64", 4), GoBytes(<<49>>)>>>>
P2 == <<<<GoInt("int64", 1), AlgV>>, <<GoInt("int64", 4), GoBytes(<<50>>)>>>>
U1 == <<<<GoInt("int64", 5), GoBytes(<<1>>)>>>>
U2 == <<<<GoInt("int64", 4), GoBytes(<<9, 9>>)>>>>
Pay == <<1, 2, 3>>
Pay2 == <<1, 2, 4>>
ParSig == <<170, 187, 204>>
ParSig2 == <<170, 187, 205>>
Sg == [kind |-> "sym", name |-> "k", alg |-> 0 - 7, fault |-> ""]
Vf == [kind |-> "sym", name |-> "k", alg |-> 0 - 7, fault |-> ""]
Exts == { [ext |-> <<>>, extnil |-> TRUE, extempty |-> FALSE], [ext |-> <<>>, extnil |-> FALSE, extempty |-> TRUE], [ext |-> <<6, 6>>, extnil |-> FALSE, extempty |-> FALSE] }
PKinds == {"sign1", "sign", "sig", "csig"}

ParentM(pk, P, sig, pay) ==
  CASE pk = "sign1" -> [P |-> P, U |-> U1, payload |-> pay, sig |-> sig]
    [] pk = "sign"  -> [P |-> P, U |-> U1, payload |-> pay, sigs |-> IF sig = <<>> THEN <<>> ELSE <<[P |-> P2, U |-> <<>>, sig |-> sig]>>]
    [] pk \in {"sig", "csig"} -> [P |-> P, U |-> U1, sig |-> sig]
\* wire image of the parent with the protected bstr head widened to w bytes (still conforming)
WideImage(pk, m, w) ==
  LET body == CASE pk = "sign1" -> Sign1Body(m) [] pk = "sign" -> SignBody(m) [] OTHER -> SigItem(m)
      wide == [body EXCEPT !.xs[1].w = w] IN
  (CASE pk = "sign1" -> <<210>> [] pk = "sign" -> <<216, 98>> [] OTHER -> <<>>) \o Enc(wide)

MakeParentW(pk, P, sig, pay, w) == <<[op |-> "unmarshal", obj |-> "par", kind |-> pk, buf |-> "w", bytes |-> WideImage(pk, ParentM(pk, P, sig, pay), w)]>>
MakeParent(pk, decoded, P, sig, pay) ==
  IF decoded THEN <<[op |-> "unmarshal", obj |-> "par", kind |-> pk, buf |-> "w", bytes |-> WideImage(pk, ParentM(pk, P, sig, pay), 2)]>>
  ELSE <<[op |-> "new", obj |-> "par", kind |-> pk, m |-> ParentM(pk, P, sig, pay)]>>

Mutations(pk) ==
  {"none", "setsig", "setprot", "setunprot", "unprotclash"} \cup (IF pk \in {"sign1", "sign"} THEN {"setpayload", "detach"} ELSE {})
MutStep(pk, mu) ==
  CASE mu = "none" -> <<>>
    [] mu = "setsig" -> <<[op |-> "setsig", obj |-> "par", slot |-> 0, sig |-> ParSig2]>>
    [] mu = "setprot" -> <<[op |-> "setprot", obj |-> "par", m |-> [P |-> P2, U |-> <<>>]]>>
    [] mu = "setunprot" -> <<[op |-> "setunprot", obj |-> "par", m |-> [P |-> <<>>, U |-> U2]]>>
    [] mu = "unprotclash" -> <<[op |-> "setunprot", obj |-> "par", m |-> [P |-> <<>>, U |-> <<<<GoInt("int64", 5), GoBytes(<<1>>)>>, <<GoInt("int64", 6), GoBytes(<<2>>)>>, <<GoInt("int64", 4), GoInt("int64", 3)>>>>]]>>
    [] mu = "setpayload" -> <<[op |-> "setpayload", obj |-> "par", payload |-> Pay2]>>
    [] mu = "detach" -> <<[op |-> "setpayload", obj |-> "par", payload |-> NilPayload]>>

\* flow "bind": countersign, mutate the parent, verify
BindProg(pk, form, abbr, decoded, x, mu) ==
  MakeParent(pk, decoded, P1, ParSig, Pay)
  \o (IF abbr
      THEN <<[op |-> "probe", obj |-> "par"],
             [op |-> "countersign0", obj |-> "", parent |-> "par", form |-> form, signers |-> <<Sg>>, buf |-> "z"] @@ x>>
      ELSE <<[op |-> "new", obj |-> "cs", kind |-> "csig", m |-> [P |-> P2, U |-> <<>>, sig |-> <<>>]],
             [op |-> "countersign", obj |-> "cs", parent |-> "par", form |-> form, signers |-> <<Sg>>] @@ x>>)
  \o (IF abbr THEN <<[op |-> "verifycs0", obj |-> "", parent |-> "par", form |-> form, verifiers |-> <<Vf>>, buf |-> "z"] @@ x>>
      ELSE <<[op |-> "verifycs", obj |-> "cs", parent |-> "par", form |-> form, verifiers |-> <<Vf>>] @@ x>>)
  \o MutStep(pk, mu)
  \o <<[op |-> "probe", obj |-> "par"]>>
  \o (IF abbr THEN <<[op |-> "verifycs0", obj |-> "", parent |-> "par", form |-> form, verifiers |-> <<Vf>>, buf |-> "z"] @@ x>>
      ELSE <<[op |-> "verifycs", obj |-> "cs", parent |-> "par", form |-> form, verifiers |-> <<Vf>>] @@ x>>)
\* deep variants: parent protected shape, countersigner protected shape, head width of the decoded parent, real keys
NestedV == [t |-> "map", ps |-> <<<<GoInt("int64", 2), GoStr(<<120>>)>>, <<GoInt("int64", 1), [t |-> "arr", xs |-> <<[t |-> "bool", v |-> TRUE]>>]>>>>]
PShapes == { <<>>, P1, <<<<GoInt("int", 1), GoNeg("int8", 6)>>, <<GoStr(<<120>>), NestedV>>>>, <<<<GoInt("int64", 1), AlgV>>, <<GoInt("int64", 4), GoBytes([i \in 1..249 |-> i % 251])>>>> }
CsShapes == { <<>>, P2, <<<<GoInt("int64", 1), AlgV>>, <<GoInt("int64", 4), GoBytes([i \in 1..18 |-> i])>>>> }
DeepProg(pk, form, abbr, w, PP, CP, x, mu, real) ==
  LET sg == IF real THEN [kind |-> "builtin", name |-> "s", alg |-> 0 - 7, fault |-> ""] ELSE Sg
      vf == IF real THEN [kind |-> "builtin", name |-> "v", alg |-> 0 - 7, fault |-> ""] ELSE Vf IN
  (IF w = 0 THEN <<[op |-> "new", obj |-> "par", kind |-> pk, m |-> ParentM(pk, PP, ParSig, Pay)]>> ELSE MakeParentW(pk, PP, ParSig, Pay, w))
  \o (IF abbr
      THEN <<[op |-> "probe", obj |-> "par"],
             [op |-> "countersign0", obj |-> "", parent |-> "par", form |-> form, signers |-> <<sg>>, buf |-> "z"] @@ x>>
      ELSE <<[op |-> "new", obj |-> "cs", kind |-> "csig", m |-> [P |-> CP, U |-> <<>>, sig |-> <<>>]],
             [op |-> "countersign", obj |-> "cs", parent |-> "par", form |-> form, signers |-> <<sg>>] @@ x>>)
  \o (IF abbr THEN <<[op |-> "verifycs0", obj |-> "", parent |-> "par", form |-> form, verifiers |-> <<vf>>, buf |-> "z"] @@ x>>
      ELSE <<[op |-> "verifycs", obj |-> "cs", parent |-> "par", form |-> form, verifiers |-> <<vf>>] @@ x>>)
  \o MutStep(pk, mu)
  \o <<[op |-> "probe", obj |-> "par"]>>
  \o (IF abbr THEN <<[op |-> "verifycs0", obj |-> "", parent |-> "par", form |-> form, verifiers |-> <<vf>>, buf |-> "z"] @@ x>>
      ELSE <<[op |-> "verifycs", obj |-> "cs", parent |-> "par", form |-> form, verifiers |-> <<vf>>] @@ x>>)
\* flow "refuse": unsigned or payload-less parents
RefuseProg(pk, form, abbr, why, x) ==
  MakeParent(pk, FALSE, P1, IF why = "unsigned" THEN <<>> ELSE ParSig, IF why = "nopayload" THEN NilPayload ELSE Pay)
  \o (IF why = "emptied" THEN <<[op |-> "setsig", obj |-> "par", slot |-> 0, sig |-> <<>>, nonnil |-> TRUE]>> ELSE <<>>)      \* signed, then reset to an empty, non-nil slice
  \o (IF abbr THEN <<[op |-> "countersign0", obj |-> "", parent |-> "par", form |-> form, signers |-> <<Sg>>, buf |-> "z"] @@ x>>
      ELSE <<[op |-> "new", obj |-> "cs", kind |-> "csig", m |-> [P |-> P2, U |-> <<>>, sig |-> <<>>]],
             [op |-> "countersign", obj |-> "cs", parent |-> "par", form |-> form, signers |-> <<Sg>>] @@ x>>)
\* flow "replay": a countersignature offered as the parent's own signature, and as the other countersignature form
X1 == [ext |-> <<6, 6>>, extnil |-> FALSE, extempty |-> FALSE]
ReplayProg(kindOf) ==
  CASE kindOf = "as-message-signature" ->
         <<[op |-> "new", obj |-> "par", kind |-> "sign1", m |-> ParentM("sign1", P1, ParSig, Pay)],
           [op |-> "new", obj |-> "cs", kind |-> "csig", m |-> [P |-> P1, U |-> <<>>, sig |-> <<>>]],
           [op |-> "countersign", obj |-> "cs", parent |-> "par", form |-> "ptr", signers |-> <<Sg>>] @@ X1,
           [op |-> "getsig", obj |-> "cs", buf |-> "z"],
           [op |-> "setsig", obj |-> "par", slot |-> 0, frombuf |-> "z"],
           [op |-> "verify", obj |-> "par", verifiers |-> <<Vf>>] @@ X1>>
    [] kindOf = "abbreviated-as-full" ->
         <<[op |-> "new", obj |-> "par", kind |-> "sign1", m |-> ParentM("sign1", P1, ParSig, Pay)],
           [op |-> "countersign0", obj |-> "", parent |-> "par", form |-> "ptr", signers |-> <<Sg>>, buf |-> "z"] @@ X1,
           [op |-> "new", obj |-> "cs", kind |-> "csig", m |-> [P |-> <<>>, U |-> <<>>, sig |-> <<>>]],
           [op |-> "setsig", obj |-> "cs", slot |-> 0, frombuf |-> "z"],
           [op |-> "verifycs", obj |-> "cs", parent |-> "par", form |-> "ptr", verifiers |-> <<Vf>>] @@ X1>>
    [] kindOf = "full-as-abbreviated" ->
         <<[op |-> "new", obj |-> "par", kind |-> "sign", m |-> ParentM("sign", P1, ParSig, Pay)],
           [op |-> "new", obj |-> "cs", kind |-> "csig", m |-> [P |-> <<>>, U |-> <<>>, sig |-> <<>>]],
           [op |-> "countersign", obj |-> "cs", parent |-> "par", form |-> "val", signers |-> <<Sg>>] @@ X1,
           [op |-> "getsig", obj |-> "cs", buf |-> "z"],
           [op |-> "verifycs0", obj |-> "", parent |-> "par", form |-> "val", verifiers |-> <<Vf>>, buf |-> "z"] @@ X1>>
    [] kindOf = "signature-as-countersignature" ->
         <<[op |-> "new", obj |-> "par", kind |-> "sig", m |-> [P |-> P1, U |-> <<>>, sig |-> <<>>]],
           [op |-> "sign", obj |-> "par", signers |-> <<Sg>>, bodyprot |-> <<64>>, payload |-> Pay] @@ X1,
           [op |-> "getsig", obj |-> "par", buf |-> "z"],
           [op |-> "new", obj |-> "par2", kind |-> "sign", m |-> [P |-> <<>>, U |-> <<>>, payload |-> Pay, sigs |-> <<[P |-> P2, U |-> <<>>, sig |-> ParSig]>>]],
           [op |-> "new", obj |-> "cs", kind |-> "csig", m |-> [P |-> P1, U |-> <<>>, sig |-> <<>>]],
           [op |-> "setsig", obj |-> "cs", slot |-> 0, frombuf |-> "z"],
           [op |-> "verifycs", obj |-> "cs", parent |-> "par2", form |-> "ptr", verifiers |-> <<Vf>>] @@ X1>>

VARIABLE st
Init == st = [phase |-> 0]
\* flow "list": n countersignatures by different countersigners attached as a list, the parent sent and parsed: every entry of the
\* decoded list verifies for this parent under its own key and under no other entry's key
SgN(i) == [kind |-> "sym", name |-> ("k" \o ToString(i)), alg |-> 0 - 7, fault |-> ""]
CsLayer(i) == [P |-> <<<<GoInt("int64", 1), [t |-> "alg", neg |-> TRUE, a |-> <<6>>]>>, <<GoInt("int64", 4), GoBytes(<<64 + i>>)>>>>, U |-> <<>>, sig |-> <<>>]
CsName(i) == "cs" \o ToString(i)
ListProg(pk, label, n, x) ==
  <<[op |-> "new", obj |-> "par", kind |-> pk, m |-> ParentM(pk, P1, ParSig, Pay)]>>
  \o [j \in 1..(2 * n) |-> IF j % 2 = 1 THEN [op |-> "new", obj |-> CsName((j + 1) \div 2), kind |-> "csig", m |-> CsLayer((j + 1) \div 2)]
                            ELSE [op |-> "countersign", obj |-> CsName(j \div 2), parent |-> "par", form |-> "ptr", signers |-> <<SgN(j \div 2)>>] @@ x]
  \o <<[op |-> "attachcs", obj |-> "par", label |-> label, css |-> [i \in 1..n |-> CsName(i)]],
       [op |-> "marshal", obj |-> "par", buf |-> "b"],
       [op |-> "unmarshal", obj |-> "p2", kind |-> pk, buf |-> "b"]>>
  \o [j \in 1..(3 * n) |->
        LET i == (j + 2) \div 3 IN
        CASE j % 3 = 1 -> [op |-> "extractcs", obj |-> "x", from |-> "p2", label |-> label, index |-> i - 1]
          [] j % 3 = 2 -> [op |-> "verifycs", obj |-> "x", parent |-> "p2", form |-> "val", verifiers |-> <<SgN(i)>>] @@ x
          [] OTHER     -> [op |-> "verifycs", obj |-> "x", parent |-> "p2", form |-> "ptr", verifiers |-> <<SgN((i % n) + 1)>>] @@ x]
PickList == st.phase = 0 /\ \E pk \in {"sign1", "sign", "sig"} : \E label \in {7, 11} : \E n \in 2..4 : \E x \in {X1} :
              st' = [phase |-> 1, flow |-> "list", pk |-> pk, label |-> label, n |-> n, x |-> x]
PickBind == st.phase = 0 /\ \E pk \in PKinds : \E form \in {"ptr", "val"} : \E abbr \in BOOLEAN : \E dec \in BOOLEAN : \E x \in Exts : \E mu \in Mutations(pk) :
              st' = [phase |-> 1, flow |-> "bind", pk |-> pk, form |-> form, abbr |-> abbr, dec |-> dec, x |-> x, mu |-> mu]
PickRefuse == st.phase = 0 /\ \E pk \in PKinds : \E form \in {"ptr", "val"} : \E abbr \in BOOLEAN : \E why \in {"unsigned", "nopayload", "emptied"} :
              (why = "nopayload" => pk \in {"sign1", "sign"}) /\ (why = "emptied" => pk # "sign")
              /\ st' = [phase |-> 1, flow |-> "refuse", pk |-> pk, form |-> form, abbr |-> abbr, why |-> why, x |-> X1]
PickReplay == st.phase = 0 /\ \E r \in {"as-message-signature", "abbreviated-as-full", "full-as-abbreviated", "signature-as-countersignature"} :
              st' = [phase |-> 1, flow |-> "replay", r |-> r]
PickDeep == Deep /\ st.phase = 0 /\ \E pk \in PKinds : \E form \in {"ptr", "val"} : \E abbr \in BOOLEAN : \E w \in DeepWidths : \E PP \in PShapes : \E CP \in CsShapes :
              \E x \in Exts : \E mu \in Mutations(pk) : \E real \in BOOLEAN :
              \* an empty countersigner header needs external data (nothing to insert the algorithm into otherwise is fine for signing, but verification needs alg or external data)
              (real => (mu = "none" /\ w \in {0, 2}))
              /\ st' = [phase |-> 1, flow |-> "deep", pk |-> pk, form |-> form, abbr |-> abbr, dec |-> w # 0, w |-> w, PP |-> PP, CP |-> CP, x |-> x, mu |-> mu, real |-> real]
Next == PickBind \/ PickRefuse \/ PickReplay \/ PickDeep \/ PickList
Spec == Init /\ [][Next]_st
Emit == st.phase # 1 \/
  CASE st.flow = "bind" -> PrintT(<<"CASE", ToJson([flow |-> "bind", pk |-> st.pk, form |-> st.form, abbr |-> st.abbr, dec |-> st.dec, ext |-> st.x.ext, mu |-> st.mu,
                                                   steps |-> BindProg(st.pk, st.form, st.abbr, st.dec, st.x, st.mu)])>>)
    [] st.flow = "list" -> PrintT(<<"CASE", ToJson([flow |-> "list", pk |-> st.pk, label |-> st.label, n |-> st.n, ext |-> st.x.ext,
                                                   steps |-> ListProg(st.pk, st.label, st.n, st.x)])>>)
    [] st.flow = "refuse" -> PrintT(<<"CASE", ToJson([flow |-> "refuse", pk |-> st.pk, form |-> st.form, abbr |-> st.abbr, why |-> st.why, ext |-> st.x.ext,
                                                     steps |-> RefuseProg(st.pk, st.form, st.abbr, st.why, st.x)])>>)
    [] st.flow = "deep" -> PrintT(<<"CASE", ToJson([flow |-> "bind", pk |-> st.pk, form |-> st.form, abbr |-> st.abbr, dec |-> st.dec, ext |-> st.x.ext, mu |-> st.mu, real |-> st.real,
                                                   steps |-> DeepProg(st.pk, st.form, st.abbr, st.w, st.PP, st.CP, st.x, st.mu, st.real)])>>)
    [] st.flow = "replay" -> PrintT(<<"CASE", ToJson([flow |-> "replay", r |-> st.r, ext |-> X1.ext, steps |-> ReplayProg(st.r)])>>)
=============================================================================
