------------------------------ MODULE Trace_C20 ------------------------------
(* Judge for C20: a failing signer / entropy source / verifier.  The error is   *)
(* returned, no bytes are returned with it, the failing slot (and later ones)   *)
(* stays empty while earlier slots keep their signatures, nothing with an empty *)
(* signature can be serialised, and a verifier's error is never turned into     *)
(* success.                                                                     *)
EXTENDS CoseSystem, Json, TraceKit
Tr == ndJsonDeserialize("tr.ndjson")
VARIABLE l

Returning(shape) == shape \in {"sign1helper", "sign1untaggedhelper", "henv", "cs0"}
OpIdx(e) == CASE e.shape \in {"sign1helper", "sign1untaggedhelper", "henv"} -> 1 [] e.shape = "cs" -> 3 [] OTHER -> 2
HasMarshal(e) == ~Returning(e.shape)
ErrFault(f) == f \in {"err", "bytes+err"}
FirstErr(fs) == IF \E i \in 1..Len(fs) : ErrFault(fs[i]) THEN CHOOSE i \in 1..Len(fs) : ErrFault(fs[i]) /\ \A j \in 1..(i - 1) : ~ErrFault(fs[j]) ELSE 0
KindOfShape(sh) == CASE sh \in {"sign1", "sign1helper", "henv"} -> "sign1" [] sh \in {"sign1u", "sign1untaggedhelper"} -> "sign1u" [] sh = "sign" -> "sign"
                     [] sh = "sig" -> "sig" [] sh \in {"cs", "cs0"} -> "csig"
\* signature slots of the object after the step
Slots(e, o) == IF e.shape = "sign" THEN [i \in 1..Len(o.post.sigs) |-> o.post.sigs[i].sig] ELSE <<o.post.sig>>

SignFails(e) ==
  LET o == e.obs[OpIdx(e)]
      fs == e.fs
      n == Len(fs)
      fe == FirstErr(fs)
      signs == CallsNamed(o.calls, "Sign")
  IN
  (IF o.res = "panic" THEN {"panic"} ELSE {})
  \cup (IF fe > 0 /\ o.res # "ErrInjected" THEN {"signer-error-not-returned"} ELSE {})
  \cup (IF o.res # "ok" /\ ~o.outnil THEN {"bytes-returned-together-with-an-error"} ELSE {})
  \cup (IF Returning(e.shape) /\ e.shape # "cs0" /\ (\E i \in 1..n : fs[i] # "") /\ (o.res = "ok" \/ ~o.outnil) THEN {"helper-returns-message-despite-faulty-signer"} ELSE {})
  \cup (IF Returning(e.shape) /\ e.shape # "cs0" /\ o.res = "ok" /\ ~WFCose(KindOfShape(e.shape), o.out) THEN {"helper-output-not-a-wellformed-signed-message"} ELSE {})
  \* slot j holds what signer j returned without error, and nothing if signer j failed or was never asked
  \* (whether signers after a failing one are still asked is not fixed by the property)
  \cup (IF ~Returning(e.shape) THEN
          LET sl == Slots(e, o)
              CallOf(j) == SelectSeq(signs, LAMBDA c : c.who = ("k" \o ToString(j)))
              Want(j) == IF ErrFault(fs[j]) \/ CallOf(j) = <<>> THEN {<<>>}
                         ELSE IF fe > 0 /\ j > fe THEN {<<>>, CallOf(j)[1].ret} ELSE {CallOf(j)[1].ret}
          IN IF \E j \in 1..Len(sl) : sl[j] \notin Want(j) THEN {"signature-slots-not-as-required-after-failure"} ELSE {}
        ELSE {})
  \cup (IF HasMarshal(e) THEN
          LET m == e.obs[OpIdx(e) + 1] sl == Slots(e, o) IN
          (IF m.res = "ok" /\ (\E j \in 1..Len(sl) : sl[j] = <<>>) THEN {"message-with-empty-signature-serialised"} ELSE {})
          \cup (IF m.res = "ok" /\ ~WFCose(KindOfShape(e.shape), m.out) THEN {"serialised-output-not-wellformed"} ELSE {})
          \cup (IF m.res # "ok" /\ ~m.outnil THEN {"bytes-returned-together-with-an-error"} ELSE {})
          \cup (IF m.res # "ok" /\ (\A j \in 1..Len(sl) : sl[j] # <<>>) THEN {"fully-signed-message-not-serialisable"} ELSE {})
        ELSE {})

VerifyFails(e) ==
  LET v == e.obs[Len(e.obs)]
      gs == e.fs
      vc == CallsNamed(v.calls, "Verify")
  IN
  (IF v.res = "panic" THEN {"panic"} ELSE {})
  \cup (IF v.res = "ok" /\ (Len(vc) # Len(gs) \/ \E i \in 1..Len(vc) : vc[i].reterr # "ok") THEN {"verifier-error-turned-into-success"} ELSE {})
  \cup (IF v.res = "ok" /\ e.shape = "sign" /\ Len(vc) = Len(gs) /\ \E i \in 1..Len(vc) : vc[i].who # ("k" \o ToString(i)) THEN {"a-supplied-verifier-was-never-consulted"} ELSE {})
  \cup (IF (\A i \in 1..Len(gs) : gs[i] = "") /\ v.res # "ok" THEN {"valid-signatures-rejected"} ELSE {})
  \cup (IF e.shape = "henv" /\ (v.res = "ok") = v.msgnil THEN {"hash-envelope-result-inconsistent-with-error"} ELSE {})
  \cup (IF (\E i \in 1..Len(gs) : gs[i] = "err") /\ v.res = "ErrVerification" /\ FALSE THEN {"unused"} ELSE {})

EntropyFails(e) ==
  LET o == e.obs[OpIdx(e)]
      reads == CallsNamed(o.calls, "Read")
      anyFail == \E i \in 1..Len(reads) : reads[i].fail
  IN
  (IF o.res = "panic" THEN {"panic"} ELSE {})
  \cup (IF anyFail /\ o.res = "ok" THEN {"entropy-failure-not-reported"} ELSE {})
  \cup (IF o.res # "ok" /\ ~o.outnil THEN {"bytes-returned-together-with-an-error"} ELSE {})
  \cup (IF ~anyFail /\ o.res # "ok" THEN {"signing-fails-without-a-fault"} ELSE {})
  \cup (IF HasMarshal(e) THEN
          LET m == e.obs[OpIdx(e) + 1] sl == Slots(e, o) IN
          (IF o.res # "ok" /\ sl[Len(sl)] # <<>> THEN {"signature-stored-despite-failure"} ELSE {})
          \cup (IF m.res = "ok" /\ (\E j \in 1..Len(sl) : sl[j] = <<>>) THEN {"message-with-empty-signature-serialised"} ELSE {})
          \cup (IF o.res # "ok" /\ m.res = "ok" THEN {"half-signed-message-serialised"} ELSE {})
        ELSE {})

\* the key behind a built-in signer fails (error / empty / nil signature): nothing usable comes out
KeyFaultFails(e) ==
  LET o == e.obs[OpIdx(e)]  kf == e.fs[1] IN
  (IF o.res = "panic" THEN {"panic"} ELSE {})
  \cup (IF kf = "err" /\ o.res = "ok" THEN {"key-error-not-returned"} ELSE {})
  \cup (IF o.res # "ok" /\ ~o.outnil THEN {"bytes-returned-together-with-an-error"} ELSE {})
  \cup (IF Returning(e.shape) /\ o.out # <<>> THEN {"message-or-signature-returned-although-the-key-failed"} ELSE {})
  \cup (IF HasMarshal(e) THEN
          LET m == e.obs[OpIdx(e) + 1] sl == Slots(e, o) IN
          (IF sl[Len(sl)] # <<>> THEN {"signature-stored-although-the-key-failed"} ELSE {})
          \cup (IF m.res = "ok" THEN {"message-serialised-although-the-key-failed"} ELSE {})
          \cup (IF m.res # "ok" /\ ~m.outnil THEN {"bytes-returned-together-with-an-error"} ELSE {})
        ELSE {})
Fails(e) == CASE e.flow = "keyfault" -> KeyFaultFails(e) [] e.flow = "sign" -> SignFails(e) [] e.flow = "verify" -> VerifyFails(e) [] e.flow = "entropy" -> EntropyFails(e)

TInit == l = 1 /\ KitInit
TNext == /\ l <= Len(Tr) /\ l' = l + 1
         /\ Note(l, Fails(Tr[l]))
TSpec == TInit /\ [][TNext]_l
Accepted == KitDone(Len(Tr))
=============================================================================
