------------------------------ MODULE Gen_Model ------------------------------
(***************************************************************************)
(* Behaviours of CoseModel for replay: TLC (-simulate, or exhaustive for   *)
(* short lengths) produces sequences of actions; each action is            *)
(* concretised into one step of the harness's program interpreter (real    *)
(* Sign1Message object, symbolic signers/verifiers, byte buffer rewritten  *)
(* "in transit").  Trace_Model.tla validates the recorded run against the  *)
(* same Step function.                                                     *)
(***************************************************************************)
EXTENDS CoseModel, GoValues, Json

AlgNum(a) == IF a = "A" THEN 0 - 7 ELSE 0 - 8
AlgGo(a) == [t |-> "alg", neg |-> TRUE, a |-> (IF a = "A" THEN <<6>> ELSE <<7>>)]
PayloadBytes(p) == CASE p = "nil" -> NilPayload [] p = "p1" -> <<1>> [] p = "p2" -> <<2>>
ExtRec(e) == IF e = "none" THEN [ext |-> <<>>, extnil |-> TRUE, extempty |-> FALSE] ELSE [ext |-> <<1, 2>>, extnil |-> FALSE, extempty |-> FALSE]
JunkBytes == <<9, 9, 9>>
KidBytes(k) == <<k>>
\* wire elements for rewriting the buffer
ProtElem(a) == Enc(IF a = "none" THEN Bstr(<<>>) ELSE Bstr(Enc(Map(<<<<UInt(1), NInt(IF a = "A" THEN 6 ELSE 7)>>>>))))
UnprotElem(k) == Enc(Map(<<<<UInt(4), Bstr(KidBytes(k))>>>>))
PayloadElem(p) == Enc(IF p = "nil" THEN Null ELSE Bstr(PayloadBytes(p)))

BodyProt == <<88, 3, 161, 3, 0>>                   \* body_protected handed to Signature.Sign / Verify (non-minimal length prefix)
InitStep == IF ObjKind = "sig"
            THEN [op |-> "new", obj |-> "m", kind |-> "sig", m |-> [P |-> <<>>, U |-> <<<<GoInt("int64", 4), GoBytes(KidBytes(0))>>>>, sig |-> <<>>]]
            ELSE [op |-> "new", obj |-> "m", kind |-> ObjKind,
                  m |-> [P |-> <<>>, U |-> <<<<GoInt("int64", 4), GoBytes(KidBytes(0))>>>>, payload |-> PayloadBytes("p1"), sig |-> <<>>]]
\* for a COSE_Signature the model's payload is what the caller passes from now on
PayArg(h, i) == LET RECURSIVE lp(_)
                    lp(j) == IF j = 0 THEN "p1" ELSE IF h[j].op = "edit" /\ h[j].what = "payload" THEN h[j].vp ELSE lp(j - 1)
                IN lp(i - 1)
SigArgs(h, i) == IF ObjKind = "sig" THEN [bodyprot |-> BodyProt, payload |-> PayloadBytes(PayArg(h, i))] ELSE [nop |-> 0]
SigIdx == IF ObjKind = "sig" THEN 2 ELSE 3
Concrete(h, i) ==
  LET a == h[i] IN
  CASE a.op = "sign" -> [op |-> "sign", obj |-> "m", signers |-> <<[kind |-> "sym", name |-> a.key, alg |-> AlgNum(a.alg), fault |-> a.fault]>>] @@ ExtRec(a.ext) @@ SigArgs(h, i)
    [] a.op = "verify" -> [op |-> "verify", obj |-> "m", verifiers |-> <<[kind |-> "sym", name |-> a.key, alg |-> AlgNum(a.alg), fault |-> ""]>>] @@ ExtRec(a.ext) @@ SigArgs(h, i)
    [] a.op = "marshal" -> [op |-> "marshal", obj |-> "m", buf |-> "w"]
    [] a.op = "unmarshal" -> [op |-> "unmarshal", obj |-> "m", kind |-> ObjKind, buf |-> "w"]
    [] a.op = "edit" ->
         (CASE a.what = "palg" -> IF a.va = "none" THEN [op |-> "setalg", obj |-> "m", absent |-> TRUE, alg |-> 0] ELSE [op |-> "setalg", obj |-> "m", absent |-> FALSE, alg |-> AlgNum(a.va)]
            [] a.what = "ukid" -> [op |-> "setkid", obj |-> "m", kid |-> KidBytes(a.vk)]
            [] a.what = "payload" -> IF ObjKind = "sig" THEN [op |-> "probe", obj |-> "m"] ELSE [op |-> "setpayload", obj |-> "m", payload |-> PayloadBytes(a.vp)]
            [] a.what = "sig" -> [op |-> "setsig", obj |-> "m", slot |-> 0, sig |-> (IF a.vs = "junk" THEN JunkBytes ELSE <<>>)]
            [] a.what = "clearraw" -> [op |-> "clearraw", obj |-> "m"])
    [] a.op = "rewire" ->
         (CASE a.what = "palg" -> [op |-> "rewire", obj |-> "", buf |-> "w", idx |-> 0, elem |-> ProtElem(a.va)]
            [] a.what = "wide" -> [op |-> "rewire", obj |-> "", buf |-> "w", idx |-> 0, width |-> (IF a.vb THEN 2 ELSE 0)]
            [] a.what = "ukid" -> [op |-> "rewire", obj |-> "", buf |-> "w", idx |-> 1, elem |-> UnprotElem(a.vk)]
            [] a.what = "payload" -> IF ObjKind = "sig" THEN [op |-> "probe", obj |-> "m"] ELSE [op |-> "rewire", obj |-> "", buf |-> "w", idx |-> 2, elem |-> PayloadElem(a.vp)]
            [] a.what = "sig" -> [op |-> "rewire", obj |-> "", buf |-> "w", idx |-> SigIdx, elem |-> Enc(Bstr(IF a.vs = "junk" THEN JunkBytes ELSE <<>>))])
\* every step is followed by a projection of the object, so that edits of the buffer and of the object are both observed
Steps(h) == <<InitStep>> \o [i \in 1..Len(h) |-> Concrete(h, i)]
\* exhaustive short behaviours are also generated from later points of the life cycle: after a successful signing, and after a
\* signed message went over the wire and was parsed (PrefixId 1, 2); GSpec starts where the prefix ends
CONSTANT PrefixId
SignA == [op |-> "sign", alg |-> "A", key |-> "k1", ext |-> "none", fault |-> ""]
Prefix == CASE PrefixId = 0 -> <<>> [] PrefixId = 1 -> <<SignA>> [] PrefixId = 2 -> <<SignA, [op |-> "marshal"], [op |-> "unmarshal"]>>
RECURSIVE After(_, _, _)
After(o, w, h) == IF h = <<>> THEN [obj |-> o, wire |-> w] ELSE LET r == Step(o, w, Head(h)) IN After(r.obj, r.wire, Tail(h))
GInit == LET s == After(InitObj, NoWire, Prefix) IN
         obj = s.obj /\ wire = s.wire /\ last = [a |-> [op |-> "init"], res |-> "ok"] /\ hist = Prefix
GSpec == GInit /\ [][Next]_vars
Emit == Len(hist) < MaxHist \/ PrintT(<<"CASE", ToJson([okind |-> ObjKind, acts |-> hist, steps |-> Steps(hist)])>>)
=============================================================================
