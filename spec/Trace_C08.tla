------------------------------ MODULE Trace_C08 ------------------------------
(* Judge for C08: the library's encoding of an in-model value is the canonical *)
(* (deterministic) image, identical across repetitions and processes, accepted *)
(* by the matching decoder, and decodes to an equivalent value.                 *)
EXTENDS GoValues, Json, TraceKit
Tr == ndJsonDeserialize("tr.ndjson")
VARIABLE l

MInModel(kind, m) == LayerInModel(m) /\ (kind = "sign" => \A i \in 1..Len(m.sigs) : LayerInModel(m.sigs[i]))
\* strip the tag so that the body can be judged as one CBOR item
BodyBytes(kind, b) == IF kind = "sign1" THEN Tail(b) ELSE IF kind = "sign" THEN Tail(Tail(b)) ELSE b
\* every protected bstr the library generated wraps deterministic CBOR
RECURSIVE ProtDetIn(_)
ProtDetIn(it) ==
  CASE it.k = "arr" /\ Len(it.xs) \in {3, 4} /\ it.xs[1].k = "bstr" ->
         /\ it.xs[1].b = <<>> \/ IsDetBytes(it.xs[1].b)
         /\ \A j \in 2..Len(it.xs) : ProtDetIn(it.xs[j])
    [] it.k = "arr" -> \A j \in 1..Len(it.xs) : ProtDetIn(it.xs[j])
    [] it.k = "map" -> \A j \in 1..Len(it.ps) : ProtDetIn(it.ps[j][2])
    [] OTHER -> TRUE
DetOut(kind, out) ==
  LET r == ParseAll(BodyBytes(kind, out)) IN
  /\ r.ok /\ IsDetItem(r.item)
  /\ IF kind = "prot" THEN (r.item.k = "bstr" /\ (r.item.b = <<>> \/ IsDetBytes(r.item.b))) ELSE ProtDetIn(r.item)

Fails(e) ==
  IF ~(MInModel(e.kind, e.m) /\ e.enc = "ok") THEN
     (IF e.enc = "panic" THEN {"panic"} ELSE {}) \cup (IF ~e.stable THEN {"unstable-verdict-or-bytes"} ELSE {})
  ELSE
     (IF e.image # ImageOf(e.kind, e.m) THEN {"infra-image-mismatch"} ELSE {})
     \cup (IF ~e.stable THEN {"encoding-differs-between-repetitions"} ELSE {})
     \cup (IF e.out2 # e.out THEN {"encoding-differs-between-processes"} ELSE {})
     \cup (IF ~e.outstable THEN {"returned-bytes-changed-by-a-later-encoding"} ELSE {})
     \cup (IF ~DetOut(e.kind, e.out) THEN {"not-deterministic-cbor"} ELSE {})
     \cup (IF e.out # e.image THEN {"not-the-canonical-image"} ELSE {})
     \cup (IF e.outdec # "ok" THEN {"own-output-not-decodable"}
           ELSE IF ImageOf(e.kind, e.decout) # e.image THEN {"decoded-value-not-equivalent"} ELSE {})

TInit == l = 1 /\ KitInit
TNext == /\ l <= Len(Tr) /\ l' = l + 1
         /\ Note(l, Fails(Tr[l]))
TSpec == TInit /\ [][TNext]_l
Accepted == KitDone(Len(Tr))
=============================================================================
