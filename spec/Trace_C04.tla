------------------------------ MODULE Trace_C04 ------------------------------
(* Judge for C04: signing/verification proceeds only under the algorithm named *)
(* in the protected header; the key is never invoked otherwise; messages signed *)
(* without external data carry the signer's algorithm inside the signed bytes.  *)
EXTENDS CoseSystem, Json, TraceKit
Tr == ndJsonDeserialize("tr.ndjson")
VARIABLE l

IsHelper(e) == e.struct \in {"sign1helper", "sign1untaggedhelper"}
KindOf(e) == CASE e.struct = "sign1helper" -> "sign1" [] e.struct = "sign1untaggedhelper" -> "sign1u" [] OTHER -> e.struct
\* index of the observation of the operation under test, and of the marshal that follows a sign
OpIdx(e) == e.pre + (IF IsHelper(e) THEN 1 ELSE IF e.struct = "csig" THEN 3 ELSE 2)
MarshalIdx(e) == IF IsHelper(e) THEN e.pre + 1 ELSE OpIdx(e) + 1
\* which element of the structure handed to the key is this layer's protected header
ProtPos(e) == IF KindOf(e) \in {"sign1", "sign1u"} THEN 2 ELSE 3

AlgOfWireItem(protItem) ==
  LET pm == ProtMap(protItem) IN
  IF ~pm.ok \/ ~HasLabel(pm.ps, LblAlg) THEN [kind |-> "absent", neg |-> FALSE, a |-> <<>>]
  ELSE LET v == ValueOf(pm.ps, LblAlg) IN
       IF v.k \in {"uint", "nint"} THEN [kind |-> "int", neg |-> v.k = "nint", a |-> v.a]
       ELSE IF v.k = "tstr" THEN [kind |-> "text", neg |-> FALSE, a |-> <<>>]
       ELSE [kind |-> "invalid", neg |-> FALSE, a |-> <<>>]

\* the header alg that governs the operation under test
Hdr(e) ==
  IF e.flow = "decverify" THEN AlgOfWireItem(SignerProtOf(KindOf(e), e.steps[1 + e.pre].bytes, 1))
  ELSE AlgOfBucket(e.P)

Judged(e) == e.flow # "decverify" \/ e.obs[1 + e.pre].res = "ok"     \* a refused wire message needs no verdict

Fails(e) ==
  IF ~Judged(e) THEN {} ELSE
  LET h == Hdr(e)
      o == e.obs[OpIdx(e)]
      proceeds == o.res = "ok" \/ KeyCalled(o.calls)
      extEmpty == e.ext = <<>>
  IN
  (IF o.res = "panic" THEN {"panic"} ELSE {})
  \* "the alg consulted is the one encoded in the protected bytes that are signed": whatever reaches the key names the key's algorithm or none
  \cup (LET kc == SelectSeq(o.calls, LAMBDA c : c.call \in {"Sign", "Verify"}) IN
        IF \E i \in 1..Len(kc) : LET tb == TbsItem(kc[i].content) IN
                                   Len(tb.xs) >= ProtPos(e) /\ AlgOfWireItem(tb.xs[ProtPos(e)]).kind = "int" /\ ~WireAlgIs(tb.xs[ProtPos(e)], e.alg)
        THEN {"key-invoked-over-protected-bytes-naming-another-algorithm"} ELSE {})
  \cup (IF h.kind \in {"int", "uint"} /\ ~AlgEq(h, e.alg) /\ proceeds THEN {"proceeds-under-another-algorithm"} ELSE {})
  \cup (IF h.kind = "int" /\ ~AlgEq(h, e.alg) /\ o.res # "ErrAlgorithmMismatch" THEN {"mismatch-not-reported-as-ErrAlgorithmMismatch"} ELSE {})
  \cup (IF h.kind \in {"text", "invalid"} /\ proceeds THEN {"proceeds-with-non-integer-alg"} ELSE {})
  \cup (IF h.kind = "absent" /\ extEmpty /\ e.flow # "sign" /\ proceeds THEN {"verifies-without-alg-and-external-data"} ELSE {})
  \cup (IF h.kind = "absent" /\ extEmpty /\ e.flow = "sign" /\ o.res = "ok" THEN
          LET signs == CallsNamed(o.calls, "Sign")
              m == e.obs[MarshalIdx(e)] IN
          (IF Len(signs) # 1 THEN {"signed-without-exactly-one-key-call"}
           ELSE LET tb == TbsItem(signs[1].content) IN
                IF Len(tb.xs) < ProtPos(e) THEN {"key-input-not-a-sig-structure"}
                ELSE (IF ~WireAlgIs(tb.xs[ProtPos(e)], e.alg) THEN {"signed-bytes-lack-the-signer-algorithm"} ELSE {})
                     \cup (IF m.res = "ok" /\ Body(KindOf(e), m.out).ok /\
                              NormHead(SignerProtOf(KindOf(e), m.out, 1)) # tb.xs[ProtPos(e)] THEN {"emitted-protected-differs-from-signed"} ELSE {}))
        ELSE {})

TInit == l = 1 /\ KitInit
TNext == /\ l <= Len(Tr) /\ l' = l + 1
         /\ Note(l, Fails(Tr[l]))
TSpec == TInit /\ [][TNext]_l
Accepted == KitDone(Len(Tr))
=============================================================================
