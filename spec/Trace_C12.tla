------------------------------ MODULE Trace_C12 ------------------------------
(* Judge for C12: only conforming hash envelopes are produced or accepted.      *)
EXTENDS CoseSystem, Json, TraceKit
Tr == ndJsonDeserialize("tr.ndjson")
VARIABLE l

HashSizeOfItem(v) ==
  IF v.k = "nint" /\ v.a = <<15>> THEN 32 ELSE IF v.k = "nint" /\ v.a = <<42>> THEN 48 ELSE IF v.k = "nint" /\ v.a = <<43>> THEN 64 ELSE 0
\* the envelope rules on the wire (draft-ietf-cose-hash-envelope as stated in the property)
EnvelopeRules(b) ==
  LET r == Body("sign1", b) IN
  /\ r.ok /\ WFCose("sign1", b)
  /\ LET it == r.item  pm == ProtMap(it.xs[1]).ps  um == it.xs[2].ps IN
     /\ HasLabel(pm, LblHashAlg) /\ IsIntItem(ValueOf(pm, LblHashAlg))
     /\ (HasLabel(pm, LblPreimageCT) => (IsUint(ValueOf(pm, LblPreimageCT)) \/ IsTstr(ValueOf(pm, LblPreimageCT))))
     /\ (HasLabel(pm, LblLocation) => IsTstr(ValueOf(pm, LblLocation)))
     /\ ~HasLabel(um, LblHashAlg) /\ ~HasLabel(um, LblPreimageCT) /\ ~HasLabel(um, LblLocation)
     /\ ~HasLabel(pm, LblContentType) /\ ~HasLabel(um, LblContentType)
     /\ IsBstr(it.xs[3])
     /\ LET hs == HashSizeOfItem(ValueOf(pm, LblHashAlg)) IN hs = 0 \/ Len(it.xs[3].b) = hs

PairSet(ps) == {ps[i] : i \in 1..Len(ps)}
AlgItem(alg) == IF alg < 0 THEN NIntA(NatToArg(0 - 1 - alg)) ELSE UIntA(NatToArg(alg))

ProducerFails(e) ==
  LET s == e.obs[1]  v == e.obs[2]  hp == e.hp IN
  (IF s.res = "panic" \/ v.res = "panic" THEN {"panic"} ELSE {})
  \cup (IF s.res # "ok" THEN (IF ~s.outnil THEN {"bytes-returned-together-with-an-error"} ELSE {})
        ELSE
          (IF ~EnvelopeRules(s.out) THEN {"nonconforming-envelope-produced"}
           ELSE LET it == Body("sign1", s.out).item  pm == ProtMap(it.xs[1]).ps IN
                (IF NormW(ValueOf(pm, LblHashAlg)) # AlgItem(hp.alg) THEN {"hash-algorithm-not-in-protected-header"} ELSE {})
                \cup (IF hp.pct.t # "absent" /\ ~(HasLabel(pm, LblPreimageCT) /\ NormW(ValueOf(pm, LblPreimageCT)) = ToItem(hp.pct)) THEN {"preimage-content-type-not-in-protected-header"} ELSE {})
                \cup (IF hp.loc # <<>> /\ ~(HasLabel(pm, LblLocation) /\ NormW(ValueOf(pm, LblLocation)) = Tstr(hp.loc)) THEN {"location-not-in-protected-header"} ELSE {})
                \cup (IF it.xs[3].b # hp.hash THEN {"payload-is-not-the-hash-value"} ELSE {})
                \* nothing but the caller's base parameters and the governed ones given in this call
                \cup (LET given == {KeyId(ToItem(e.P[i][1])) : i \in 1..Len(e.P)} \cup {KeyId(UIntA(NatToArg(LblHashAlg)))}
                                   \cup (IF hp.pct.t # "absent" THEN {KeyId(UIntA(NatToArg(LblPreimageCT)))} ELSE {})
                                   \cup (IF hp.loc # <<>> THEN {KeyId(UIntA(NatToArg(LblLocation)))} ELSE {})
                           have == {KeyId(pm[i][1]) : i \in 1..Len(pm)}
                           algk == {KeyId(UIntA(NatToArg(LblAlg)))}          \* signing may add the signer's algorithm
                       IN IF have \ algk # given \ algk THEN {"protected-header-is-not-the-base-plus-the-given-parameters"} ELSE {}))
          \cup (IF v.res # "ok" \/ v.msgnil THEN {"own-envelope-not-accepted-by-VerifyHashEnvelope"}
                ELSE LET rp == v.post.P IN
                  (IF ~HasGoLabel(rp, LblHashAlg) \/ ToItem(GoValueOf(rp, LblHashAlg)) # AlgItem(hp.alg) THEN {"returned-hash-algorithm-differs"} ELSE {})
                  \cup (IF hp.pct.t # "absent" /\ (~HasGoLabel(rp, LblPreimageCT) \/ ToItem(GoValueOf(rp, LblPreimageCT)) # ToItem(hp.pct)) THEN {"returned-preimage-content-type-differs"} ELSE {})
                  \cup (IF hp.loc # <<>> /\ (~HasGoLabel(rp, LblLocation) \/ ToItem(GoValueOf(rp, LblLocation)) # Tstr(hp.loc)) THEN {"returned-location-differs"} ELSE {})
                  \cup (IF v.post.payload # hp.hash THEN {"returned-payload-differs"} ELSE {})))
  \* the caller's maps are never modified (whether or not signing succeeded)
  \cup (IF s.res # "panic" /\ (PairSet(s.hdrpost.P) # PairSet(e.P) \/ PairSet(s.hdrpost.U) # PairSet(e.U)) THEN {"caller-header-maps-modified"} ELSE {})

ConsumerFails(e) ==
  LET m == e.obs[3]  v == e.obs[4]  vc == CallsNamed(v.calls, "Verify") IN
  IF m.res # "ok" THEN {} ELSE
  (IF v.res = "panic" THEN {"panic"} ELSE {})
  \cup (IF (v.res = "ok") = v.msgnil THEN {"result-inconsistent-with-error"} ELSE {})
  \cup (IF v.res = "ok" /\ ~EnvelopeRules(m.out) THEN {"nonconforming-envelope-accepted"} ELSE {})
  \cup (IF v.res = "ok" /\ (Len(vc) # 1 \/ vc[1].reterr # "ok") THEN {"accepted-without-valid-signature"} ELSE {})

Fails(e) == IF e.side = "producer" THEN ProducerFails(e) ELSE ConsumerFails(e)

TInit == l = 1 /\ KitInit
TNext == /\ l <= Len(Tr) /\ l' = l + 1
         /\ Note(l, Fails(Tr[l]))
TSpec == TInit /\ [][TNext]_l
Accepted == KitDone(Len(Tr))
=============================================================================
