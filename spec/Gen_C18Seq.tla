------------------------------ MODULE Gen_C18Seq ------------------------------
(* C18, single-threaded part: read-only calls (Verify, MarshalCBOR,             *)
(* Countersignature.Verify, VerifyCountersign0) bracketed by projections of     *)
(* every argument, on values that carry non-normalised Go types (alg as int64 / *)
(* int8 / int, labels as int / uint8, nil vs empty buckets) so that a caching   *)
(* or normalising write is visible in the projection.                           *)
EXTENDS CoseSystem, Json
AlgVals == { [t |-> "alg", neg |-> TRUE, a |-> <<6>>], GoNeg("int64", 6), GoNeg("int8", 6), GoNeg("int", 6), GoNeg("int16", 6) }
LblTypes == {"int64", "int", "uint8", "int16"}
Sg == [kind |-> "sym", name |-> "k", alg |-> 0 - 7, fault |-> ""]
Vf == [kind |-> "sym", name |-> "k", alg |-> 0 - 7, fault |-> ""]
X == [ext |-> <<>>, extnil |-> TRUE, extempty |-> FALSE]
P(lt, av) == <<<<[t |-> lt, neg |-> FALSE, a |-> <<1>>], av>>, <<[t |-> lt, neg |-> FALSE, a |-> <<4>>], GoBytes(<<49>>)>>>>
Pay == <<1, 2>>
MsgProg(kind, lt, av, dec) ==
  LET obj == IF dec THEN "m2" ELSE "m" IN
  << [op |-> "new", obj |-> "m", kind |-> kind, m |-> [P |-> P(lt, av), U |-> <<<<[t |-> lt, neg |-> FALSE, a |-> <<5>>], GoBytes(<<9>>)>>>>, payload |-> Pay, sig |-> <<>>]],
     [op |-> "sign", obj |-> "m", signers |-> <<Sg>>] @@ X,
     [op |-> "marshal", obj |-> "m", buf |-> "b0"] >>
  \o (IF dec THEN <<[op |-> "unmarshal", obj |-> "m2", kind |-> kind, buf |-> "b0"]>> ELSE <<>>)
  \o << [op |-> "probe", obj |-> obj], [op |-> "verify", obj |-> obj, verifiers |-> <<Vf>>] @@ X, [op |-> "probe", obj |-> obj],
        [op |-> "marshal", obj |-> obj, buf |-> "b1"], [op |-> "probe", obj |-> obj] >>
CsProg(lt, av, abbr) ==
  << [op |-> "new", obj |-> "par", kind |-> "sign1", m |-> [P |-> P(lt, av), U |-> <<>>, payload |-> Pay, sig |-> <<170, 187>>]],
     [op |-> "new", obj |-> "cs", kind |-> "csig", m |-> [P |-> P(lt, av), U |-> <<>>, sig |-> <<>>]],
     [op |-> "countersign", obj |-> "cs", parent |-> "par", form |-> "ptr", signers |-> <<Sg>>] @@ X,
     [op |-> "countersign0", obj |-> "", parent |-> "par", form |-> "ptr", signers |-> <<Sg>>, buf |-> "z"] @@ X,
     [op |-> "probe", obj |-> "par"] >>
  \o (IF abbr THEN <<[op |-> "verifycs0", obj |-> "", parent |-> "par", form |-> "ptr", verifiers |-> <<Vf>>, buf |-> "z"] @@ X, [op |-> "probe", obj |-> "par"]>>
      ELSE <<[op |-> "verifycs", obj |-> "cs", parent |-> "par", form |-> "ptr", verifiers |-> <<Vf>>] @@ X, [op |-> "probe", obj |-> "par"],
             [op |-> "probe", obj |-> "cs"], [op |-> "verifycs", obj |-> "cs", parent |-> "par", form |-> "val", verifiers |-> <<Vf>>] @@ X, [op |-> "probe", obj |-> "cs"],
             [op |-> "marshal", obj |-> "cs", buf |-> "c"], [op |-> "probe", obj |-> "cs"]>>)
VARIABLE st
Init == st = [phase |-> 0]
Pick == st.phase = 0 /\ \E lt \in LblTypes : \E av \in AlgVals :
   \/ \E kind \in {"sign1", "sign1u"} : \E dec \in BOOLEAN : st' = [phase |-> 1, steps |-> MsgProg(kind, lt, av, dec)]
   \/ \E abbr \in BOOLEAN : st' = [phase |-> 1, steps |-> CsProg(lt, av, abbr)]
Next == Pick
Spec == Init /\ [][Next]_st
Emit == st.phase # 1 \/ PrintT(<<"CASE", ToJson([steps |-> st.steps])>>)
=============================================================================
