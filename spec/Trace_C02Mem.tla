----------------------------- MODULE Trace_C02Mem -----------------------------
(* Judge for C02 (memory side): what a signer / verifier receives is the        *)
(* Sig_structure built from the object's protected bytes (retained raw bytes,   *)
(* else the deterministic encoding of the map), the external data (nil = empty)  *)
(* and the payload - nothing else.  Long payloads / external data are given by   *)
(* their length; their bytes follow the generator's pattern.                     *)
EXTENDS CoseSystem, Json, TraceKit
Tr == ndJsonDeserialize("tr.ndjson")
VARIABLE l

Pattern(n) == [i \in 1..n |-> ((i - 1) * 131 + ((i - 1) \div 256)) % 256]
Small(n) == [i \in 1..n |-> ((i - 1) * 131) % 256]
Bytes(n) == IF n <= 64 THEN Small(n) ELSE Pattern(n)
BodyProtItem == Bstr(<<161, 3, 0>>)          \* the content of the body_protected argument (the generator spells its length prefix non-minimally)
Exp(kind, o, j, ext, payload) ==
  CASE kind \in {"sign1", "sign1u"} -> Sig1Structure(LayerProtItem(o), ext, payload)
    [] kind = "sign" -> SigStructure(LayerProtItem(o), LayerProtItem(o.sigs[j]), ext, payload)
    [] kind = "sig" -> SigStructure(BodyProtItem, LayerProtItem(o), ext, payload)
Fails(e) ==
  LET ext == Bytes(e.en)
      payload == Bytes(e.pn)
      s == e.obs[2]
      v == e.obs[5]
      sc == SelectSeq(s.calls, LAMBDA c : c.call = "Sign")
      vc == SelectSeq(v.calls, LAMBDA c : c.call = "Verify")
  IN
  (IF s.res = "panic" \/ v.res = "panic" THEN {"panic"} ELSE {})
  \cup (IF s.res = "ok" /\ \E j \in 1..Len(sc) : sc[j].content # Exp(e.kind, s.post, j, ext, payload) THEN {"signer-input-is-not-the-sig-structure"} ELSE {})
  \cup (IF e.obs[4].res = "ok" /\ \E j \in 1..Len(vc) : vc[j].content # Exp(e.kind, e.obs[4].post, j, ext, payload) THEN {"verifier-input-is-not-the-sig-structure"} ELSE {})
  \cup (IF s.res = "ok" /\ e.obs[4].res = "ok" /\ Len(vc) = Len(sc) /\ \E j \in 1..Len(vc) : vc[j].content # sc[j].content THEN {"signed-and-verified-bytes-differ"} ELSE {})
TInit == l = 1 /\ KitInit
TNext == /\ l <= Len(Tr) /\ l' = l + 1
         /\ Note(l, Fails(Tr[l]))
TSpec == TInit /\ [][TNext]_l
Accepted == KitDone(Len(Tr))
=============================================================================
