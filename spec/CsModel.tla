------------------------------- MODULE CsModel -------------------------------
(***************************************************************************)
(* The life cycle of a countersignature (RFC 9338) as a state machine: a   *)
(* signed COSE_Sign1 parent `par`, one COSE_Countersignature object `cs`,  *)
(* one buffer `cs0` holding an abbreviated countersignature, and one byte  *)
(* buffer `wire` holding the serialised parent.  Countersignatures are     *)
(* made (full / abbreviated), verified, attached to the parent's           *)
(* unprotected bucket, carried through serialisation and parsing, the      *)
(* parent and the countersignature are edited by the caller, the bytes are *)
(* rewritten in transit, and signature bytes are moved between the full    *)
(* and the abbreviated form.  A countersignature is the term               *)
(*   [key, [form, body_protected, sign_protected, external, payload,       *)
(*          parent signature]]                                             *)
(* Same construction as CoseModel: Step(state, action) serves model        *)
(* checking, generation of behaviours and trace validation.                *)
(***************************************************************************)
EXTENDS Naturals, Sequences, FiniteSets, TLC

CONSTANTS Keys,      \* key names
          Algs,      \* signature algorithms the countersigner may use
          Exts,      \* external data values: "none" (nil / empty) and others
          Scope      \* "core": making, verifying, editing; otherwise also attaching, serialising, parsing, rewriting (exhaustive runs split the two)
Prots == {"x", "y"}                 \* two protected buckets of the parent
Payloads == {"nil", "p1", "p2"}
PSigs == {"none", "s1", "s2"}       \* the parent's signature bytes (opaque here)
KidVals == {0, 1}

CTbs(form, bprot, sprot, ext, payload, psig) == [form |-> form, bprot |-> bprot, sprot |-> sprot, ext |-> ext, payload |-> payload, psig |-> psig]
CSig(key, tbs) == [key |-> key, tbs |-> tbs]
NoTbs == CTbs("none", "x", "none", "none", "nil", "none")
NoCs == CSig("none", NoTbs)          \* no signature bytes
JunkCs == CSig("junk", NoTbs)        \* bytes that are nobody's countersignature

\* ---------------------------------------------------------------------------
\* state
\* ---------------------------------------------------------------------------
Abbr(present, term) == [present |-> present, term |-> term]
InitPar == [prot |-> "x", payload |-> "p1", sig |-> "s1", ukid |-> 0, att |-> FALSE, att0 |-> Abbr(FALSE, NoCs)]
\* att: the unprotected bucket holds (a pointer to) the countersignature object; att0: it holds a copy of abbreviated countersignature bytes
InitCs == [palg |-> "none", hasRaw |-> FALSE, ralg |-> "none", sig |-> NoCs]
NoAtt == [present |-> FALSE, palg |-> "none", sig |-> NoCs]
NoWire == [present |-> FALSE]
CWire(prot, payload, sig, ukid, att, att0) == [present |-> TRUE, prot |-> prot, payload |-> payload, sig |-> sig, ukid |-> ukid, att |-> att, att0 |-> att0]

SProtOf(c) == IF c.hasRaw THEN c.ralg ELSE c.palg
FullTbs(p, c, ext) == CTbs("full", p.prot, SProtOf(c), ext, p.payload, p.sig)
AbbrTbs(p, ext) == CTbs("abbr", p.prot, "empty", ext, p.payload, p.sig)

St(p, c, z, w, res) == [par |-> p, cs |-> c, cs0 |-> z, wire |-> w, res |-> res]

\* the parent must be signed and carry its payload
ParentCheck(p) == IF p.sig = "none" THEN "err" ELSE IF p.payload = "nil" THEN "ErrMissingPayload" ELSE "ok"

DoCountersign(p, c, z, w, a) ==
  IF c.sig # NoCs THEN St(p, c, z, w, "err")
  ELSE LET needInject == c.palg = "none" /\ a.ext = "none" IN
       IF c.palg # "none" /\ c.palg # a.alg THEN St(p, c, z, w, "ErrAlgorithmMismatch")
       ELSE IF needInject /\ c.hasRaw THEN St(p, c, z, w, "ErrAlgorithmNotFound")
       ELSE LET c1 == IF needInject THEN [c EXCEPT !.palg = a.alg] ELSE c
                pc == ParentCheck(p) IN
            IF pc # "ok" THEN St(p, c1, z, w, pc)
            ELSE CASE a.fault = "err"   -> St(p, c1, z, w, "ErrInjected")
                   [] a.fault = "empty" -> St(p, c1, z, w, "ok")
                   [] OTHER             -> St(p, [c1 EXCEPT !.sig = CSig(a.key, FullTbs(p, c1, a.ext))], z, w, "ok")

CsAlgCheck(c, alg, ext) ==
  IF c.palg # "none" THEN (IF c.palg = alg THEN "ok" ELSE "ErrAlgorithmMismatch")
  ELSE IF ext # "none" THEN "ok" ELSE "ErrAlgorithmNotFound"
DoVerifyCs(p, c, z, w, a) ==
  IF c.sig = NoCs THEN St(p, c, z, w, "ErrEmptySignature")
  ELSE LET ac == CsAlgCheck(c, a.alg, a.ext) pc == ParentCheck(p) IN
       IF ac # "ok" THEN St(p, c, z, w, ac)
       ELSE IF pc # "ok" THEN St(p, c, z, w, pc)
       ELSE St(p, c, z, w, IF c.sig = CSig(a.key, FullTbs(p, c, a.ext)) THEN "ok" ELSE "ErrVerification")

\* abbreviated: the bytes are returned to the caller (kept in the buffer); nothing is returned on failure
DoCountersign0(p, c, z, w, a) ==
  LET pc == ParentCheck(p) IN
  IF pc # "ok" THEN St(p, c, NoCs, w, pc)
  ELSE CASE a.fault = "err"   -> St(p, c, NoCs, w, "ErrInjected")
         [] a.fault = "empty" -> St(p, c, NoCs, w, "ok")
         [] OTHER             -> St(p, c, CSig(a.key, AbbrTbs(p, a.ext)), w, "ok")
DoVerifyCs0(p, c, z, w, a) ==
  LET pc == ParentCheck(p) IN
  IF pc # "ok" THEN St(p, c, z, w, pc)
  ELSE St(p, c, z, w, IF z # NoCs /\ z = CSig(a.key, AbbrTbs(p, a.ext)) THEN "ok" ELSE "ErrVerification")

\* serialising the parent: it must be signed, an attached countersignature must be signed
DoMarshal(p, c, z, w) ==
  IF p.sig = "none" THEN St(p, c, z, w, "ErrEmptySignature")
  ELSE IF p.att /\ c.sig = NoCs THEN St(p, c, z, w, "ErrEmptySignature")
  ELSE St(p, c, z, CWire(p.prot, p.payload, p.sig, p.ukid, IF p.att THEN [present |-> TRUE, palg |-> SProtOf(c), sig |-> c.sig] ELSE NoAtt, p.att0), "ok")
\* parsing: the decoded parent owns a decoded copy of the countersignature (which becomes `cs`) and of the abbreviated bytes
DoUnmarshal(p, c, z, w) ==
  IF ~w.present THEN St(p, c, z, w, "err")
  ELSE IF w.sig = "none" THEN St(p, c, z, w, "ErrEmptySignature")
  ELSE IF w.att.present /\ w.att.sig = NoCs THEN St(p, c, z, w, "ErrEmptySignature")
  ELSE St([prot |-> w.prot, payload |-> w.payload, sig |-> w.sig, ukid |-> w.ukid, att |-> w.att.present, att0 |-> w.att0],
          IF w.att.present THEN [palg |-> w.att.palg, hasRaw |-> TRUE, ralg |-> w.att.palg, sig |-> w.att.sig] ELSE c,
          IF w.att0.present THEN w.att0.term ELSE z, w, "ok")

DoEdit(p, c, z, w, a) ==
  CASE a.what = "prot"    -> St([p EXCEPT !.prot = a.vr], c, z, w, "ok")
    [] a.what = "payload" -> St([p EXCEPT !.payload = a.vp], c, z, w, "ok")
    [] a.what = "psig"    -> St([p EXCEPT !.sig = a.vg], c, z, w, "ok")
    [] a.what = "ukid"    -> St([p EXCEPT !.ukid = a.vk], c, z, w, "ok")
    [] a.what = "attach"  -> St([p EXCEPT !.att = TRUE], c, z, w, "ok")
    [] a.what = "attach0" -> St([p EXCEPT !.att0 = Abbr(TRUE, z)], c, z, w, "ok")
    [] a.what = "detach"  -> St([p EXCEPT !.att = FALSE, !.att0 = Abbr(FALSE, NoCs), !.ukid = 0], c, z, w, "ok")
    [] a.what = "csalg"   -> St(p, [c EXCEPT !.palg = a.va], z, w, "ok")
    [] a.what = "cssig"   -> St(p, [c EXCEPT !.sig = IF a.vs = "junk" THEN JunkCs ELSE NoCs], z, w, "ok")
    [] a.what = "csraw"   -> St(p, [c EXCEPT !.hasRaw = FALSE], z, w, "ok")
    [] a.what = "tofull"  -> St(p, [c EXCEPT !.sig = z], z, w, "ok")            \* abbreviated bytes put into the countersignature object
    [] a.what = "toabbr"  -> St(p, c, c.sig, w, "ok")                          \* the object's signature bytes used as abbreviated countersignature
DoRewire(p, c, z, w, a) ==
  IF ~w.present THEN St(p, c, z, w, "ok")
  ELSE CASE a.what = "prot"    -> St(p, c, z, [w EXCEPT !.prot = a.vr], "ok")
         [] a.what = "payload" -> St(p, c, z, [w EXCEPT !.payload = a.vp], "ok")
         [] a.what = "psig"    -> St(p, c, z, [w EXCEPT !.sig = a.vg], "ok")

Step(p, c, z, w, a) ==
  CASE a.op = "countersign"  -> DoCountersign(p, c, z, w, a)
    [] a.op = "verifycs"     -> DoVerifyCs(p, c, z, w, a)
    [] a.op = "countersign0" -> DoCountersign0(p, c, z, w, a)
    [] a.op = "verifycs0"    -> DoVerifyCs0(p, c, z, w, a)
    [] a.op = "marshal"      -> DoMarshal(p, c, z, w)
    [] a.op = "unmarshal"    -> DoUnmarshal(p, c, z, w)
    [] a.op = "edit"         -> DoEdit(p, c, z, w, a)
    [] a.op = "rewire"       -> DoRewire(p, c, z, w, a)

Forms == {"ptr", "val"}             \* the parent is handed over by pointer or by value: no influence on anything
Actions ==
  { [op |-> "countersign", alg |-> al, key |-> k, ext |-> e, fault |-> f, form |-> fm] : al \in Algs, k \in Keys, e \in Exts, f \in {"", "err", "empty"}, fm \in Forms }
  \cup { [op |-> "verifycs", alg |-> al, key |-> k, ext |-> e, form |-> fm] : al \in Algs, k \in Keys, e \in Exts, fm \in Forms }
  \cup { [op |-> "countersign0", alg |-> al, key |-> k, ext |-> e, fault |-> f, form |-> fm] : al \in Algs, k \in Keys, e \in Exts, f \in {"", "err", "empty"}, fm \in Forms }
  \cup { [op |-> "verifycs0", alg |-> al, key |-> k, ext |-> e, form |-> fm] : al \in Algs, k \in Keys, e \in Exts, fm \in Forms }
  \cup { [op |-> "marshal"], [op |-> "unmarshal"] }
  \cup { [op |-> "edit", what |-> "prot", vr |-> x] : x \in Prots }
  \cup { [op |-> "edit", what |-> "payload", vp |-> x] : x \in Payloads }
  \cup { [op |-> "edit", what |-> "psig", vg |-> x] : x \in PSigs }
  \cup { [op |-> "edit", what |-> "ukid", vk |-> x] : x \in KidVals }
  \cup { [op |-> "edit", what |-> x] : x \in {"attach", "attach0", "detach", "csraw", "tofull", "toabbr"} }
  \cup { [op |-> "edit", what |-> "csalg", va |-> x] : x \in Algs \cup {"none"} }
  \cup { [op |-> "edit", what |-> "cssig", vs |-> x] : x \in {"none", "junk"} }
  \cup { [op |-> "rewire", what |-> "prot", vr |-> x] : x \in Prots }
  \cup { [op |-> "rewire", what |-> "payload", vp |-> x] : x \in Payloads }
  \cup { [op |-> "rewire", what |-> "psig", vg |-> x] : x \in PSigs }

\* ---------------------------------------------------------------------------
\* the state machine
\* ---------------------------------------------------------------------------
VARIABLES par, cs, cs0, wire, last, hist
vars == <<par, cs, cs0, wire, last, hist>>
CONSTANTS MaxHist, Record

Init == par = InitPar /\ cs = InitCs /\ cs0 = NoCs /\ wire = NoWire /\ last = [a |-> [op |-> "init"], res |-> "ok"] /\ hist = <<>>
InScope(a) == Scope # "core" \/ (a.op \in {"countersign", "verifycs", "countersign0", "verifycs0"}
                                   \/ (a.op = "edit" /\ a.what \notin {"attach", "attach0", "detach", "ukid"}))
Next == /\ Record => Len(hist) < MaxHist
        /\ \E a \in {x \in Actions : InScope(x)} :
             LET r == Step(par, cs, cs0, wire, a) IN
             /\ par' = r.par /\ cs' = r.cs /\ cs0' = r.cs0 /\ wire' = r.wire
             /\ last' = [a |-> a, res |-> r.res]
             /\ hist' = IF Record THEN Append(hist, a) ELSE hist
Spec == Init /\ [][Next]_vars

\* ---------------------------------------------------------------------------
\* properties
\* ---------------------------------------------------------------------------
VfActs == { [op |-> "verifycs", alg |-> al, key |-> k, ext |-> e, form |-> "ptr"] : al \in Algs, k \in Keys, e \in Exts }
Vf0Acts == { [op |-> "verifycs0", alg |-> al, key |-> k, ext |-> e, form |-> "ptr"] : al \in Algs, k \in Keys, e \in Exts }
\* C10: a countersignature verifies exactly when it is the term over the parent's current fields, the countersigner's protected bucket and the external data
CS_Exact == [][ /\ (last'.a.op = "verifycs" =>
                      (last'.res = "ok" <=> /\ cs.sig # NoCs /\ ParentCheck(par) = "ok" /\ CsAlgCheck(cs, last'.a.alg, last'.a.ext) = "ok"
                                            /\ cs.sig = CSig(last'.a.key, FullTbs(par, cs, last'.a.ext))))
                /\ (last'.a.op = "verifycs0" =>
                      (last'.res = "ok" <=> /\ cs0 # NoCs /\ ParentCheck(par) = "ok" /\ cs0 = CSig(last'.a.key, AbbrTbs(par, last'.a.ext)))) ]_vars
\* C10 / C03: it is bound to the parent's protected bucket, payload and signature, and to nothing else of the parent
CS_BindsParent ==
  \A a \in VfActs \cup Vf0Acts :
    Step(par, cs, cs0, wire, a).res = "ok" =>
      /\ \A r \in Prots, pl \in Payloads, g \in PSigs :
           (<<r, pl, g>> # <<par.prot, par.payload, par.sig>>) => Step([par EXCEPT !.prot = r, !.payload = pl, !.sig = g], cs, cs0, wire, a).res # "ok"
      /\ \A k \in KidVals, at \in BOOLEAN :
           Step([par EXCEPT !.ukid = k, !.att = at, !.att0 = Abbr(FALSE, NoCs)], cs, cs0, wire, a).res = "ok"
\* no bytes verify both as a full and as an abbreviated countersignature; the pointer / value form of the parent argument is immaterial
CS_FormsSeparate ==
  \A a \in VfActs, b \in Vf0Acts, t \in {cs.sig, cs0} :
    ~(Step(par, [cs EXCEPT !.sig = t], cs0, wire, a).res = "ok" /\ Step(par, cs, t, wire, b).res = "ok")
CS_FormImmaterial == \A a \in Actions : ("form" \in DOMAIN a) => Step(par, cs, cs0, wire, a) = Step(par, cs, cs0, wire, [a EXCEPT !.form = "val"])
\* C01: what was just made verifies under the same key, algorithm and external data
CS_SignThenVerify == [][
  /\ ((last'.a.op = "countersign" /\ last'.res = "ok" /\ last'.a.fault = "") =>
        Step(par', cs', cs0', wire', [op |-> "verifycs", alg |-> last'.a.alg, key |-> last'.a.key, ext |-> last'.a.ext, form |-> "ptr"]).res = "ok")
  /\ ((last'.a.op = "countersign0" /\ last'.res = "ok" /\ last'.a.fault = "") =>
        Step(par', cs', cs0', wire', [op |-> "verifycs0", alg |-> last'.a.alg, key |-> last'.a.key, ext |-> last'.a.ext, form |-> "ptr"]).res = "ok") ]_vars
\* C09: an attached countersignature survives serialisation and parsing of the parent with every verdict unchanged
CsConsistent(c) == ~c.hasRaw \/ c.palg = c.ralg
CS_RoundTrip ==
  LET m == DoMarshal(par, cs, cs0, wire) IN
  (m.res = "ok" /\ CsConsistent(cs)) =>
    LET u == DoUnmarshal(par, cs, cs0, m.wire) IN
    /\ u.res = "ok"
    /\ par.att => \A a \in VfActs : Step(u.par, u.cs, u.cs0, m.wire, a).res = Step(par, cs, cs0, wire, a).res
    /\ par.att0.present => \A a \in Vf0Acts : Step(u.par, u.cs, u.cs0, m.wire, a).res = Step(par, cs, par.att0.term, wire, a).res
    /\ DoMarshal(u.par, u.cs, u.cs0, m.wire).wire = m.wire
\* C18: verification and serialisation change nothing; countersigning never changes the parent
CS_ReadOnly == [][ /\ (last'.a.op \in {"verifycs", "verifycs0", "marshal"} => par' = par /\ cs' = cs /\ cs0' = cs0)
                   /\ (last'.a.op \in {"countersign", "countersign0"} => par' = par)
                   /\ (last'.a.op = "countersign0" => cs' = cs) ]_vars
\* C20: a failing countersigner stores / returns nothing
CS_NoHalfSigned == [][ /\ ((last'.a.op = "countersign" /\ last'.res # "ok") => cs'.sig = cs.sig)
                       /\ ((last'.a.op = "countersign" /\ last'.a.fault # "" /\ cs.sig = NoCs) => cs'.sig = NoCs)
                       /\ ((last'.a.op = "countersign0" /\ (last'.res # "ok" \/ last'.a.fault # "")) => cs0' = NoCs)
                       /\ ((last'.a.op = "marshal" /\ last'.res = "ok") => wire'.sig # "none" /\ (wire'.att.present => wire'.att.sig # NoCs)) ]_vars
\* C19: a failed decode leaves everything as it was
CS_Atomic == [][ (last'.a.op = "unmarshal" /\ last'.res # "ok") => par' = par /\ cs' = cs /\ cs0' = cs0 ]_vars
View == <<par, cs, cs0, wire>>
\* the full scope is explored exhaustively up to a number of steps only (CONSTRAINT), the core scope without bound
CONSTANT MaxLevel
LevelBound == TLCGet("level") <= MaxLevel
=============================================================================
