------------------------------ MODULE SignModel ------------------------------
(***************************************************************************)
(* The life cycle of a COSE_Sign message (several signers) as a state      *)
(* machine: one message object with N signature slots and one byte buffer *)
(* holding its serialisation.  Signing with a list of signers (any of      *)
(* which may fail or come back empty-handed), verifying with a list of     *)
(* verifiers, serialising, parsing, caller edits of the body, of a slot's  *)
(* signature (emptied, garbage, another slot's bytes) and of a slot's      *)
(* algorithm.  A signature is the term                                     *)
(*    [key, [body_protected, sign_protected, external, payload]]           *)
(* Same construction as CoseModel / CsModel: Step(state, action) serves    *)
(* model checking, generation of behaviours and trace validation.  The     *)
(* model is sequential and stops at the first failing slot, as the code    *)
(* does; the trace judge only holds the code to what the properties fix.   *)
(***************************************************************************)
EXTENDS Naturals, Sequences, FiniteSets, TLC

CONSTANTS Keys, Algs, Exts,
          Scope            \* "core": no serialisation / parsing (exhaustive runs); otherwise everything
N == 2                     \* signature slots
Payloads == {"nil", "p1", "p2"}
BProts == {"x", "y"}

STbs(bprot, sprot, ext, payload) == [bprot |-> bprot, sprot |-> sprot, ext |-> ext, payload |-> payload]
SSig(key, tbs) == [key |-> key, tbs |-> tbs]
NoTbs == STbs("x", "none", "none", "nil")
NoSig == SSig("none", NoTbs)
Junk == SSig("junk", NoTbs)

InitSlot == [palg |-> "none", hasRaw |-> FALSE, ralg |-> "none", sig |-> NoSig]
InitMsg == [bprot |-> "x", payload |-> "p1", slots |-> [i \in 1..N |-> InitSlot]]
NoWire == [present |-> FALSE]
SWire(bprot, payload, slots) == [present |-> TRUE, bprot |-> bprot, payload |-> payload, slots |-> slots]

SProtOf(s) == IF s.hasRaw THEN s.ralg ELSE s.palg
GTbsOf(m, i, ext) == STbs(m.bprot, SProtOf(m.slots[i]), ext, m.payload)
R(m, w, res) == [msg |-> m, wire |-> w, res |-> res]

\* ---------------------------------------------------------------------------
\* signing: slot after slot; the first slot that cannot be signed ends the call
\* ---------------------------------------------------------------------------
\* outcome for one slot: [slot, res]
SignSlot(m, i, key, alg, ext, fault) ==
  LET s == m.slots[i] IN
  IF s.sig # NoSig THEN [slot |-> s, res |-> "err"]
  ELSE LET needInject == s.palg = "none" /\ ext = "none" IN
       IF s.palg # "none" /\ s.palg # alg THEN [slot |-> s, res |-> "ErrAlgorithmMismatch"]
       ELSE IF needInject /\ s.hasRaw THEN [slot |-> s, res |-> "ErrAlgorithmNotFound"]
       ELSE LET s1 == IF needInject THEN [s EXCEPT !.palg = alg] ELSE s
                m1 == [m EXCEPT !.slots[i] = s1] IN
            CASE fault = "err"   -> [slot |-> s1, res |-> "ErrInjected"]
              [] fault = "empty" -> [slot |-> s1, res |-> "ok"]
              [] OTHER           -> [slot |-> [s1 EXCEPT !.sig = SSig(key, GTbsOf(m1, i, ext))], res |-> "ok"]
RECURSIVE SignFrom(_, _, _)
SignFrom(m, i, a) ==
  IF i > N THEN [msg |-> m, res |-> "ok", stop |-> 0]
  ELSE LET o == SignSlot(m, i, a.ks[i], a.as[i], a.ext, a.fs[i])
           m1 == [m EXCEPT !.slots[i] = o.slot] IN
       IF o.res # "ok" THEN [msg |-> m1, res |-> o.res, stop |-> i] ELSE SignFrom(m1, i + 1, a)
DoSign(m, w, a) ==
  IF m.payload = "nil" THEN R(m, w, "ErrMissingPayload")
  ELSE IF Len(a.ks) # N THEN R(m, w, "err")
  ELSE LET o == SignFrom(m, 1, a) IN R(o.msg, w, o.res)

SlotAlgCheck(s, alg, ext) ==
  IF s.palg # "none" THEN (IF s.palg = alg THEN "ok" ELSE "ErrAlgorithmMismatch")
  ELSE IF ext # "none" THEN "ok" ELSE "ErrAlgorithmNotFound"
VerifySlot(m, i, key, alg, ext) ==
  LET s == m.slots[i] IN
  IF s.sig = NoSig THEN "ErrEmptySignature"
  ELSE LET c == SlotAlgCheck(s, alg, ext) IN
       IF c # "ok" THEN c ELSE IF s.sig = SSig(key, GTbsOf(m, i, ext)) THEN "ok" ELSE "ErrVerification"
RECURSIVE VerifyFrom(_, _, _)
VerifyFrom(m, i, a) == IF i > N THEN "ok" ELSE LET r == VerifySlot(m, i, a.ks[i], a.as[i], a.ext) IN IF r # "ok" THEN r ELSE VerifyFrom(m, i + 1, a)
DoVerify(m, w, a) ==
  IF m.payload = "nil" THEN R(m, w, "ErrMissingPayload")
  ELSE IF Len(a.ks) # N THEN R(m, w, "err")
  ELSE R(m, w, VerifyFrom(m, 1, a))

DoMarshal(m, w) ==
  IF \E i \in 1..N : m.slots[i].sig = NoSig THEN R(m, w, "ErrEmptySignature")
  ELSE R(m, SWire(m.bprot, m.payload, [i \in 1..N |-> [palg |-> SProtOf(m.slots[i]), sig |-> m.slots[i].sig]]), "ok")
DoUnmarshal(m, w) ==
  IF ~w.present THEN R(m, w, "err")
  ELSE R([bprot |-> w.bprot, payload |-> w.payload,
          slots |-> [i \in 1..N |-> [palg |-> w.slots[i].palg, hasRaw |-> TRUE, ralg |-> w.slots[i].palg, sig |-> w.slots[i].sig]]], w, "ok")

DoEdit(m, w, a) ==
  CASE a.what = "payload"  -> R([m EXCEPT !.payload = a.vp], w, "ok")
    [] a.what = "bprot"    -> R([m EXCEPT !.bprot = a.vr], w, "ok")
    [] a.what = "slotsig"  -> R([m EXCEPT !.slots[a.i].sig = CASE a.vs = "none" -> NoSig [] a.vs = "junk" -> Junk [] a.vs = "copy" -> m.slots[3 - a.i].sig], w, "ok")
    [] a.what = "slotalg"  -> R([m EXCEPT !.slots[a.i].palg = a.va], w, "ok")
    [] a.what = "slotraw"  -> R([m EXCEPT !.slots[a.i].hasRaw = FALSE], w, "ok")

Step(m, w, a) ==
  CASE a.op = "sign"      -> DoSign(m, w, a)
    [] a.op = "verify"    -> DoVerify(m, w, a)
    [] a.op = "marshal"   -> DoMarshal(m, w)
    [] a.op = "unmarshal" -> DoUnmarshal(m, w)
    [] a.op = "edit"      -> DoEdit(m, w, a)

KeyLists == [1..N -> Keys]
AlgLists == { al \in [1..N -> Algs] : TRUE }
FaultLists == { <<"", "">>, <<"err", "">>, <<"", "err">>, <<"empty", "">>, <<"", "empty">> }
Seq2(f) == <<f[1], f[2]>>
Actions ==
  { [op |-> "sign", ks |-> Seq2(k), as |-> Seq2(al), ext |-> e, fs |-> f] : k \in KeyLists, al \in AlgLists, e \in Exts, f \in FaultLists }
  \cup { [op |-> "sign", ks |-> <<k>>, as |-> <<al>>, ext |-> e, fs |-> <<"">>] : k \in Keys, al \in Algs, e \in Exts }                 \* too few signers
  \cup { [op |-> "verify", ks |-> Seq2(k), as |-> Seq2(al), ext |-> e] : k \in KeyLists, al \in AlgLists, e \in Exts }
  \cup { [op |-> "verify", ks |-> <<k>>, as |-> <<al>>, ext |-> e] : k \in Keys, al \in Algs, e \in Exts }                              \* too few verifiers
  \cup { [op |-> "verify", ks |-> <<k, k, k>>, as |-> <<al, al, al>>, ext |-> e] : k \in Keys, al \in Algs, e \in Exts }                \* too many
  \cup { [op |-> "marshal"], [op |-> "unmarshal"] }
  \cup { [op |-> "edit", what |-> "payload", vp |-> x] : x \in Payloads }
  \cup { [op |-> "edit", what |-> "bprot", vr |-> x] : x \in BProts }
  \cup { [op |-> "edit", what |-> "slotsig", i |-> i, vs |-> x] : i \in 1..N, x \in {"none", "junk", "copy"} }
  \cup { [op |-> "edit", what |-> "slotalg", i |-> i, va |-> x] : i \in 1..N, x \in Algs \cup {"none"} }
  \cup { [op |-> "edit", what |-> "slotraw", i |-> i] : i \in 1..N }

\* ---------------------------------------------------------------------------
\* the state machine
\* ---------------------------------------------------------------------------
VARIABLES msg, wire, last, hist
vars == <<msg, wire, last, hist>>
CONSTANTS MaxHist, Record, MaxLevel
InScope(a) == Scope # "core" \/ a.op \notin {"marshal", "unmarshal"}
Init == msg = InitMsg /\ wire = NoWire /\ last = [a |-> [op |-> "init"], res |-> "ok"] /\ hist = <<>>
Next == /\ Record => Len(hist) < MaxHist
        /\ \E a \in {x \in Actions : InScope(x)} :
             LET r == Step(msg, wire, a) IN
             /\ msg' = r.msg /\ wire' = r.wire
             /\ last' = [a |-> a, res |-> r.res]
             /\ hist' = IF Record THEN Append(hist, a) ELSE hist
Spec == Init /\ [][Next]_vars
View == <<msg, wire>>
LevelBound == TLCGet("level") <= MaxLevel

\* ---------------------------------------------------------------------------
\* properties
\* ---------------------------------------------------------------------------
FullVerifies == { [op |-> "verify", ks |-> Seq2(k), as |-> Seq2(al), ext |-> e] : k \in KeyLists, al \in AlgLists, e \in Exts }
\* C11: nil exactly when the counts match and every slot verifies under the verifier at its position over its own structure
SG_Exact == [][ last'.a.op = "verify" =>
   (last'.res = "ok" <=> /\ Len(last'.a.ks) = N /\ msg.payload # "nil"
                         /\ \A i \in 1..N : /\ msg.slots[i].sig # NoSig /\ SlotAlgCheck(msg.slots[i], last'.a.as[i], last'.a.ext) = "ok"
                                            /\ msg.slots[i].sig = SSig(last'.a.ks[i], GTbsOf(msg, i, last'.a.ext))) ]_vars
\* C11: positional - verifiers of different keys cannot be swapped, another slot's bytes do not verify in this slot, one bad slot fails all
SG_Positional ==
  \A a \in FullVerifies :
    Step(msg, wire, a).res = "ok" =>
      /\ (a.ks[1] # a.ks[2] => Step(msg, wire, [a EXCEPT !.ks = <<a.ks[2], a.ks[1]>>]).res # "ok")
      /\ \A i \in 1..N : \A v \in {"none", "junk"} : Step(DoEdit(msg, wire, [op |-> "edit", what |-> "slotsig", i |-> i, vs |-> v]).msg, wire, a).res # "ok"
      /\ \A i \in 1..N : (msg.slots[1].sig # msg.slots[2].sig) => Step(DoEdit(msg, wire, [op |-> "edit", what |-> "slotsig", i |-> i, vs |-> "copy"]).msg, wire, a).res # "ok"
\* C20 / C11: signing fills every slot or reports an error; the failing slot holds nothing new; nothing with an empty slot is serialised
SG_SignAllOrError == [][ last'.a.op = "sign" =>
   /\ ((last'.res = "ok" /\ \A i \in 1..Len(last'.a.fs) : last'.a.fs[i] = "") => \A i \in 1..N : msg'.slots[i].sig # NoSig)
   /\ (last'.res # "ok" => \E i \in 1..N : msg'.slots[i].sig = msg.slots[i].sig)
   /\ (\A i \in 1..N : (Len(last'.a.fs) = N /\ last'.a.fs[i] # "" /\ msg.slots[i].sig = NoSig) => msg'.slots[i].sig = NoSig) ]_vars
SG_NoEmptyOnWire == [][ (last'.a.op = "marshal" /\ last'.res = "ok") => \A i \in 1..N : wire'.slots[i].sig # NoSig ]_vars
\* C01: a complete signing verifies under the same keys, algorithms and external data
SG_SignThenVerify == [][ (last'.a.op = "sign" /\ last'.res = "ok" /\ Len(last'.a.fs) = N /\ \A i \in 1..N : last'.a.fs[i] = "") =>
   Step(msg', wire', [op |-> "verify", ks |-> last'.a.ks, as |-> last'.a.as, ext |-> last'.a.ext]).res = "ok" ]_vars
\* C09: serialising and parsing changes no verdict
SlotConsistent(s) == ~s.hasRaw \/ s.palg = s.ralg
SG_RoundTrip ==
  LET m == DoMarshal(msg, wire) IN
  (m.res = "ok" /\ \A i \in 1..N : SlotConsistent(msg.slots[i])) =>
    LET u == DoUnmarshal(msg, m.wire) IN
    /\ u.res = "ok"
    /\ \A a \in FullVerifies : Step(u.msg, m.wire, a).res = Step(msg, wire, a).res
    /\ DoMarshal(u.msg, m.wire).wire = m.wire
\* C18 / C19
SG_ReadOnly == [][ last'.a.op \in {"verify", "marshal"} => msg' = msg ]_vars
SG_Atomic == [][ (last'.a.op = "unmarshal" /\ last'.res # "ok") => msg' = msg ]_vars
=============================================================================
