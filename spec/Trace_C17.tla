------------------------------ MODULE Trace_C17 ------------------------------
(* Judge for C17: factories succeed exactly for matching, adequate keys, fail    *)
(* with the documented error classes, report the requested algorithm; signing a  *)
(* message equals signing its digest under the algorithm's hash and no other.    *)
EXTENDS CoseCrypto, Json, TraceKit
Tr == ndJsonDeserialize("tr.ndjson")
VARIABLE l

FactoryFails(e) ==
  LET want == IF e.side = "signer" THEN NewSignerVerdict(e.alg, e.keykind) ELSE NewVerifierVerdict(e.alg, e.keykind) IN
  (IF e.res = "panic" THEN {"panic"} ELSE {})
  \cup (IF want = "ok" /\ e.res # "ok" THEN {"factory-refuses-a-matching-adequate-key"} ELSE {})
  \cup (IF want # "ok" /\ e.res = "ok" THEN {"factory-accepts-a-mismatching-or-inadequate-key"} ELSE {})
  \cup (IF want \in {"ErrAlgorithmNotSupported", "ErrInvalidPubKey"} /\ e.res \notin {"ok", "panic", want} THEN {"undocumented-error-class"} ELSE {})
  \cup (IF e.res = "ok" /\ e.reported # e.alg THEN {"reports-another-algorithm"} ELSE {})
  \cup (IF (e.res = "ok") = e.nilresult /\ e.res # "panic" THEN {"result-and-error-inconsistent"} ELSE {})

DigestFails(e) ==
  LET own == HashOf(e.alg)
      signedRight == e.signhash = own
      shouldVerify == signedRight /\ e.verifyhash = own
  IN
  (IF e.verify = "panic" \/ e.sign = "panic" THEN {"panic"} ELSE {})
  \* (the caller verifies with the very digest variable it signed with, held in a larger buffer: e.digestkept is recorded, the
  \* requirement is the stated one - both entry points agree)
  \cup (IF signedRight THEN
          (IF e.sign # "ok" THEN {"signing-fails-" \o e.sign} ELSE
           (IF ~e.stdv THEN {"signature-not-valid-for-the-message-under-the-algorithm-hash"} ELSE {})
           \cup (IF shouldVerify /\ e.verify # "ok" THEN {"entry-points-not-equivalent"} ELSE {})
           \cup (IF ~shouldVerify /\ e.verify = "ok" THEN {"verifies-under-another-hash"} ELSE {})
           \cup (IF ~shouldVerify /\ e.verify \notin {"ok", "ErrVerification"} THEN {"wrong-hash-not-reported-as-verification-error"} ELSE {}))
        \* a digest of another hash handed to SignDigest: whatever comes out must not be a signature of the message
        ELSE (IF e.sign = "ok" /\ e.stdv THEN {"digest-of-another-hash-yields-a-valid-message-signature"} ELSE {})
             \cup (IF e.sign = "ok" /\ e.verifyhash = own /\ e.verify = "ok" THEN {"verifies-under-another-hash"} ELSE {}))

Fails(e) == IF e.op = "factory" THEN FactoryFails(e) ELSE DigestFails(e)
TInit == l = 1 /\ KitInit
TNext == /\ l <= Len(Tr) /\ l' = l + 1
         /\ Note(l, Fails(Tr[l]))
TSpec == TInit /\ [][TNext]_l
Accepted == KitDone(Len(Tr))
=============================================================================
