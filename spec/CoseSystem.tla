------------------------------ MODULE CoseSystem ------------------------------
(***************************************************************************)
(* The library as a state machine over in-memory objects.                  *)
(*                                                                         *)
(* State: a heap of objects (messages, signatures, countersignatures),     *)
(* each a layer [P, U, rawP, rawU] (+ payload, sig / sigs), and named byte *)
(* buffers.  A program is a sequence of steps (one public API call each);  *)
(* the harness records for every step the result class, the signer /       *)
(* verifier / entropy calls it caused, returned bytes and the projected    *)
(* post-state of the object.  The operators below give the specification's *)
(* view of what each call may do; Trace_*.tla bind recorded programs to    *)
(* them, Gen_*.tla enumerate programs.                                     *)
(***************************************************************************)
EXTENDS GoValues

\* ---------------------------------------------------------------------------
\* layers
\* ---------------------------------------------------------------------------
\* protected bstr item the library must use for a layer: the retained raw bytes if any
\* (RFC 9052: "as they appear on the wire"), otherwise the deterministic encoding of the map
LayerProtItem(ly) ==
  IF ly.rawP # <<>> THEN (LET r == ParseAll(ly.rawP) IN IF r.ok THEN r.item ELSE Bstr(<<255>>))
  ELSE ProtBstr(ly.P)

\* the alg parameter of an in-memory protected bucket, looked up by label VALUE (any Go integer spelling)
IsLabelN(k, n) == IsGoInt(k) /\ ~k.neg /\ k.a = NatToArg(n)
EntriesOf(ps, n) == {i \in 1..Len(ps) : IsLabelN(ps[i][1], n)}
HasGoLabel(ps, n) == EntriesOf(ps, n) # {}
GoValueOf(ps, n) == ps[CHOOSE i \in EntriesOf(ps, n) : TRUE][2]
\* [kind |-> "absent" | "int" | "uint" | "text" | "invalid", neg, a]
AlgOfBucket(ps) ==
  IF ~HasGoLabel(ps, LblAlg) THEN [kind |-> "absent", neg |-> FALSE, a |-> <<>>]
  ELSE LET v == GoValueOf(ps, LblAlg) IN
       IF v.t \in SignedIntTypes \cup {"alg"} THEN [kind |-> "int", neg |-> v.neg, a |-> v.a]
       ELSE IF v.t \in UnsignedIntTypes THEN [kind |-> "uint", neg |-> v.neg, a |-> v.a]
       ELSE IF v.t = "str" THEN [kind |-> "text", neg |-> FALSE, a |-> <<>>]
       ELSE [kind |-> "invalid", neg |-> FALSE, a |-> <<>>]
\* a signer/verifier algorithm is an integer alg (TLC int, small): as (neg, a)
AlgNeg(alg) == alg < 0
AlgArg(alg) == IF alg < 0 THEN NatToArg(0 - 1 - alg) ELSE NatToArg(alg)
AlgEq(h, alg) == h.kind \in {"int", "uint"} /\ h.neg = AlgNeg(alg) /\ h.a = AlgArg(alg)

\* alg inside a protected bstr item (wire level)
WireAlgIs(protItem, alg) ==
  LET pm == ProtMap(protItem) IN
  pm.ok /\ HasLabel(pm.ps, LblAlg) /\
  LET v == ValueOf(pm.ps, LblAlg) IN v.k = (IF alg < 0 THEN "nint" ELSE "uint") /\ v.a = AlgArg(alg)

\* calls recorded by spies
CallsNamed(calls, c) == SelectSeq(calls, LAMBDA x : x.call = c)
KeyCalled(calls) == \E i \in 1..Len(calls) : calls[i].call \in {"Sign", "Verify"}

\* elements of a Sig_structure / Countersign_structure handed to a key (parsed by the TLA+ parser)
TbsItem(content) == LET r == ParseAll(content) IN IF r.ok /\ r.item.k = "arr" THEN r.item ELSE Arr(<<>>)

=============================================================================
