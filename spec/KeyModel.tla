------------------------------- MODULE KeyModel -------------------------------
(***************************************************************************)
(* The life cycle of a COSE_Key object as a state machine: built from a    *)
(* private or public key (EC2 on P-256, OKP on Ed25519; two key pairs of   *)
(* each), restricted by the caller (alg, key_ops, private part removed),   *)
(* serialised, parsed, turned into a signer / verifier, used.  A signature *)
(* is the term [kty, pair] of the private key that made it.  Same          *)
(* construction as the message models: Step serves model checking,         *)
(* generation of behaviours and trace validation.                          *)
(***************************************************************************)
EXTENDS Naturals, Sequences, FiniteSets, TLC

CONSTANT Ktys                          \* subset of {"EC2", "OKP"}
Pairs == {"a", "b"}
AlgVals == {"none", "ok", "bad"}          \* absent / the algorithm the curve fixes / another one
OpsVals == {"absent", "empty", "sign", "verify", "both", "other"}

Key(kty, pair, hasD, alg, ops) == [kty |-> kty, pair |-> pair, hasD |-> hasD, alg |-> alg, ops |-> ops]
InitKey == Key("EC2", "a", TRUE, "ok", "absent")     \* (the harness starts every program with this key)
NoWire == [present |-> FALSE]
Handle(kty, pair) == [kty |-> kty, pair |-> pair]
NoHandle == Handle("none", "none")

CanSign(k) == k.ops \in {"absent", "sign", "both"}
CanVerify(k) == k.ops \in {"absent", "verify", "both"}
St(k, w, sh, vh, sg, res) == [key |-> k, wire |-> w, sh |-> sh, vh |-> vh, sg |-> sg, res |-> res]

Step(k, w, sh, vh, sg, a) ==
  CASE a.op = "new"       -> St(Key(a.kty, a.pair, a.priv, "ok", "absent"), w, sh, vh, sg, "ok")
    [] a.op = "edit"      -> (CASE a.what = "alg"   -> St([k EXCEPT !.alg = a.v], w, sh, vh, sg, "ok")
                                [] a.what = "ops"   -> St([k EXCEPT !.ops = a.v], w, sh, vh, sg, "ok")
                                [] a.what = "dropd" -> St([k EXCEPT !.hasD = FALSE], w, sh, vh, sg, "ok"))
    [] a.op = "marshal"   -> St(k, [present |-> TRUE, key |-> k], sh, vh, sg, "ok")
    [] a.op = "unmarshal" -> IF ~w.present THEN St(k, w, sh, vh, sg, "err")
                             ELSE IF w.key.alg = "bad" THEN St(k, w, sh, vh, sg, "err")     \* an algorithm that contradicts the curve is refused
                             ELSE St(w.key, w, sh, vh, sg, "ok")
    [] a.op = "signer"    -> IF ~CanSign(k) THEN St(k, w, sh, vh, sg, "ErrOpNotSupported")
                             ELSE IF ~k.hasD \/ k.alg = "bad" THEN St(k, w, sh, vh, sg, "err")
                             ELSE St(k, w, Handle(k.kty, k.pair), vh, sg, "ok")
    [] a.op = "verifier"  -> IF ~CanVerify(k) THEN St(k, w, sh, vh, sg, "ErrOpNotSupported")
                             ELSE IF k.alg = "bad" THEN St(k, w, sh, vh, sg, "err")
                             ELSE St(k, w, sh, Handle(k.kty, k.pair), sg, "ok")
    [] a.op = "sign"      -> IF sh = NoHandle THEN St(k, w, sh, vh, sg, "nohandle") ELSE St(k, w, sh, vh, sh, "ok")
    [] a.op = "verify"    -> IF vh = NoHandle \/ sg = NoHandle THEN St(k, w, sh, vh, sg, "nohandle")
                             ELSE St(k, w, sh, vh, sg, IF sg = vh THEN "ok" ELSE "ErrVerification")

Actions ==
  { [op |-> "new", kty |-> t, pair |-> p, priv |-> d] : t \in Ktys, p \in Pairs, d \in BOOLEAN }
  \cup { [op |-> "edit", what |-> "alg", v |-> x] : x \in AlgVals }
  \cup { [op |-> "edit", what |-> "ops", v |-> x] : x \in OpsVals }
  \cup { [op |-> "edit", what |-> "dropd"] }
  \cup { [op |-> x] : x \in {"marshal", "unmarshal", "signer", "verifier", "sign", "verify"} }

VARIABLES key, wire, sh, vh, sg, last, hist
vars == <<key, wire, sh, vh, sg, last, hist>>
CONSTANTS MaxHist, Record
Init == key = InitKey /\ wire = NoWire /\ sh = NoHandle /\ vh = NoHandle /\ sg = NoHandle /\ last = [a |-> [op |-> "init"], res |-> "ok"] /\ hist = <<>>
Next == /\ Record => Len(hist) < MaxHist
        /\ \E a \in Actions :
             LET r == Step(key, wire, sh, vh, sg, a) IN
             /\ key' = r.key /\ wire' = r.wire /\ sh' = r.sh /\ vh' = r.vh /\ sg' = r.sg
             /\ last' = [a |-> a, res |-> r.res]
             /\ hist' = IF Record THEN Append(hist, a) ELSE hist
Spec == Init /\ [][Next]_vars
View == <<key, wire, sh, vh, sg>>

\* C15: a signer only from a key with private material whose key_ops (when present) include sign; a verifier only if they include verify;
\* never when the algorithm contradicts the curve
K_Permitted == [][ /\ (last'.a.op = "signer" => (last'.res = "ok" <=> key.hasD /\ CanSign(key) /\ key.alg # "bad"))
                   /\ (last'.a.op = "verifier" => (last'.res = "ok" <=> CanVerify(key) /\ key.alg # "bad"))
                   /\ (last'.a.op = "signer" /\ last'.res = "ok" => sh' = Handle(key.kty, key.pair))
                   /\ (last'.a.op = "verifier" /\ last'.res = "ok" => vh' = Handle(key.kty, key.pair)) ]_vars
\* C14: what is serialised parses back to the same key (unless its algorithm contradicts the curve: then it does not parse)
K_RoundTrip == LET m == Step(key, wire, sh, vh, sg, [op |-> "marshal"]) u == Step(key, m.wire, sh, vh, sg, [op |-> "unmarshal"]) IN
               /\ m.res = "ok" /\ (u.res = "ok" <=> key.alg # "bad") /\ (u.res = "ok" => u.key = key)
\* C14 / C01: a signature made by a key's signer verifies under the verifier of the same key pair and of no other
K_OwnSignatures == [][ last'.a.op = "verify" /\ last'.res # "nohandle" => (last'.res = "ok" <=> sg = vh) ]_vars
\* C18 / C19: only constructors, edits and successful parsing change the key
K_ReadOnly == [][ last'.a.op \in {"marshal", "signer", "verifier", "sign", "verify"} => key' = key ]_vars
K_Atomic == [][ (last'.a.op = "unmarshal" /\ last'.res # "ok") => key' = key ]_vars
=============================================================================
