------------------------------- MODULE Gen_C05 -------------------------------
(* Generator for C05/C06: every structural mutation (and pair of mutations)  *)
(* at every position of the CBOR tree of valid messages of every kind.       *)
EXTENDS CoseBases, Json
CONSTANTS Depth,      \* 1 = single mutations, 2 = pairs
          GenKinds,   \* kinds whose bases are mutated
          MaxBase     \* use bases 1..MaxBase of each kind

VARIABLE st
Init == st = [d |-> 0, kind |-> "", base |-> 0, tree |-> <<>>, top |-> <<>>]
PickBase == /\ st.base = 0
            /\ \E kd \in GenKinds : \E i \in 1..Len(BasesOf(kd)) :
                 /\ i <= MaxBase
                 /\ st' = [d |-> 0, kind |-> kd, base |-> i, tree |-> BasesOf(kd)[i], top |-> <<>>]
Mutate == /\ st.base # 0 /\ st.d < Depth /\ st.top = <<>>
          /\ \E p \in Paths(st.tree) : \E m \in NodeMutations(Get(st.tree, p)) :
               st' = [st EXCEPT !.d = st.d + 1, !.tree = Put(st.tree, p, m)]
TopMut == /\ st.base # 0 /\ st.d < Depth /\ st.top = <<>>
          /\ \E b \in TopMutations(Wire(st.kind, st.tree)) : st' = [st EXCEPT !.d = st.d + 1, !.top = b]
Next == PickBase \/ Mutate \/ TopMut
Spec == Init /\ [][Next]_st

Bytes == IF st.top # <<>> THEN st.top ELSE Wire(st.kind, st.tree)
Emit == st.base = 0 \/ PrintT(<<"CASE", ToJson([kind |-> st.kind, base |-> st.base, d |-> st.d, bytes |-> Bytes])>>)
\* property checked on the specification: bases are well-formed and conforming, and
\* conformance (C07) implies well-formedness (C05) on the whole mutation space
BaseWF == (st.base # 0 /\ st.d = 0) => (WFCose(st.kind, Bytes) /\ Conforming(st.kind, Bytes))
ConformingIsWF == st.base # 0 => (Conforming(st.kind, Bytes) => WFCose(st.kind, Bytes))
\* no byte string is well-formed for two different kinds (Signature/Countersignature share a format)
KindsDisjoint == st.base # 0 =>
   \A k1, k2 \in Kinds : (WFCose(k1, Bytes) /\ WFCose(k2, Bytes)) => (k1 = k2 \/ {k1, k2} = {"sig", "csig"})
=============================================================================
