-------------------------------- MODULE Gen_Sg --------------------------------
(***************************************************************************)
(* Behaviours of SignModel for replay: object "m" (a COSE_Sign with two    *)
(* signature slots), buffer "w".  Every model action is one interpreter    *)
(* step followed by a projection of the message.                           *)
(***************************************************************************)
EXTENDS SignModel, GoValues, Json

AlgNum(a) == IF a = "A" THEN 0 - 7 ELSE 0 - 8
ExtRec(e) == IF e = "none" THEN [ext |-> <<>>, extnil |-> TRUE, extempty |-> FALSE] ELSE [ext |-> <<1, 2>>, extnil |-> FALSE, extempty |-> FALSE]
PayloadBytes(p) == CASE p = "nil" -> NilPayload [] p = "p1" -> <<1>> [] p = "p2" -> <<2>>
JunkBytes == <<9, 9, 9>>
BodyBucket(r) == IF r = "x" THEN <<<<GoInt("int64", 3), GoInt("int64", 0)>>>> ELSE <<<<GoInt("int64", 3), GoInt("int64", 0)>>, <<GoInt("int64", 4), GoBytes(<<98>>)>>>>
SlotLayer(i) == [P |-> <<>>, U |-> <<<<GoInt("int64", 4), GoBytes(<<48 + i>>)>>>>, sig |-> <<>>]
InitStep == [op |-> "new", obj |-> "m", kind |-> "sign", m |-> [P |-> BodyBucket("x"), U |-> <<>>, payload |-> PayloadBytes("p1"), sigs |-> [i \in 1..N |-> SlotLayer(i)]]]
Concrete(a) ==
  CASE a.op = "sign" -> [op |-> "sign", obj |-> "m", signers |-> [i \in 1..Len(a.ks) |-> [kind |-> "sym", name |-> a.ks[i], alg |-> AlgNum(a.as[i]), fault |-> a.fs[i]]]] @@ ExtRec(a.ext)
    [] a.op = "verify" -> [op |-> "verify", obj |-> "m", verifiers |-> [i \in 1..Len(a.ks) |-> [kind |-> "sym", name |-> a.ks[i], alg |-> AlgNum(a.as[i]), fault |-> ""]]] @@ ExtRec(a.ext)
    [] a.op = "marshal" -> [op |-> "marshal", obj |-> "m", buf |-> "w"]
    [] a.op = "unmarshal" -> [op |-> "unmarshal", obj |-> "m", kind |-> "sign", buf |-> "w"]
    [] a.op = "edit" ->
         (CASE a.what = "payload" -> [op |-> "setpayload", obj |-> "m", payload |-> PayloadBytes(a.vp)]
            [] a.what = "bprot" -> [op |-> "setprot", obj |-> "m", m |-> [P |-> BodyBucket(a.vr), U |-> <<>>]]
            [] a.what = "slotsig" -> (CASE a.vs = "none" -> [op |-> "setsig", obj |-> "m", slot |-> a.i - 1, sig |-> <<>>]
                                        [] a.vs = "junk" -> [op |-> "setsig", obj |-> "m", slot |-> a.i - 1, sig |-> JunkBytes]
                                        [] a.vs = "copy" -> [op |-> "setsig", obj |-> "m", slot |-> a.i - 1, sig |-> <<>>, fromslot |-> (N - a.i)])
            [] a.what = "slotalg" -> IF a.va = "none" THEN [op |-> "slotsetalg", obj |-> "m", slot |-> a.i - 1, absent |-> TRUE, alg |-> 0]
                                     ELSE [op |-> "slotsetalg", obj |-> "m", slot |-> a.i - 1, absent |-> FALSE, alg |-> AlgNum(a.va)]
            [] a.what = "slotraw" -> [op |-> "slotclearraw", obj |-> "m", slot |-> a.i - 1])
RECURSIVE Flat(_)
Flat(h) == IF h = <<>> THEN <<>> ELSE <<Concrete(Head(h)), [op |-> "probe", obj |-> "m"]>> \o Flat(Tail(h))
Steps(h) == <<InitStep>> \o Flat(h)
\* exhaustive short behaviours from later points of the life cycle: signed (1); signed, sent and parsed (2); half signed (3)
CONSTANT PrefixId
SignAll == [op |-> "sign", ks |-> <<"k1", "k2">>, as |-> <<"A", "A">>, ext |-> "none", fs |-> <<"", "">>]
Prefix == CASE PrefixId = 0 -> <<>> [] PrefixId = 1 -> <<SignAll>> [] PrefixId = 2 -> <<SignAll, [op |-> "marshal"], [op |-> "unmarshal"]>>
            [] PrefixId = 3 -> <<[SignAll EXCEPT !.fs = <<"", "err">>]>>
RECURSIVE After(_, _, _)
After(m, w, h) == IF h = <<>> THEN [msg |-> m, wire |-> w] ELSE LET r == Step(m, w, Head(h)) IN After(r.msg, r.wire, Tail(h))
GInit == LET s == After(InitMsg, NoWire, Prefix) IN msg = s.msg /\ wire = s.wire /\ last = [a |-> [op |-> "init"], res |-> "ok"] /\ hist = Prefix
GSpec == GInit /\ [][Next]_vars
Emit == Len(hist) < MaxHist \/ PrintT(<<"CASE", ToJson([sg |-> TRUE, acts |-> hist, steps |-> Steps(hist)])>>)
=============================================================================
