------------------------------ MODULE CoseBases ------------------------------
(* Valid base messages (model trees) from which generators start.            *)
EXTENDS CoseStruct, Mutations

A_ES256 == <<UInt(1), NInt(6)>>                          \* alg: ES256 (-7)
A_EdDSA == <<UInt(1), NInt(7)>>                          \* alg: EdDSA (-8)
SigBytes == Bstr(<<170, 187>>)

Cs1 == Arr(<<BstrW(Map(<<A_ES256>>)), Map(<<>>), Bstr(<<204, 221>>)>>)
Cs2 == Arr(<<BstrW(Map(<<A_EdDSA, <<UInt(4), Bstr(<<50>>)>>>>)), Map(<<<<UInt(4), Bstr(<<51>>)>>>>), Bstr(<<238>>)>>)

\* bodies of COSE_Sign1 (4-arrays)
S1Base1 == Arr(<<BstrW(Map(<<A_ES256>>)), Map(<<>>), Bstr(<<1>>), SigBytes>>)
S1Base2 == Arr(<<BstrW(Map(<<A_ES256, <<UInt(2), Arr(<<UInt(1)>>)>>, <<UInt(3), Tstr(<<97, 47, 98>>)>>>>)),
                 Map(<<<<UInt(4), Bstr(<<49>>)>>, <<UInt(7), Cs1>>>>), Null, SigBytes>>)
S1Base3 == Arr(<<Bstr(<<>>), Map(<<<<UInt(1), NInt(6)>>, <<UInt(11), Arr(<<Cs1, Cs1>>)>>,
                 <<Tstr(<<120>>), Map(<<<<UInt(1), Arr(<<True>>)>>>>)>>>>), Bstr(<<>>), Bstr(<<170>>)>>)
S1Bases == <<S1Base1, S1Base2, S1Base3>>

\* COSE_Signature / COSE_Countersignature (3-arrays)
SgBase1 == Cs1
SgBase2 == Arr(<<BstrW(Map(<<A_ES256, <<UInt(5), Bstr(<<9>>)>>>>)), Map(<<<<UInt(4), Bstr(<<49>>)>>, <<UInt(7), Cs2>>>>), SigBytes>>)
Cs3 == Arr(<<BstrW(Map(<<A_ES256>>)), Map(<<<<UInt(11), Arr(<<Cs2, Cs1>>)>>, <<UInt(9), Bstr(<<1, 2>>)>>>>), Bstr(<<7, 7>>)>>)       \* countersignatures inside a countersignature
SgBase3 == Arr(<<BstrW(Map(<<A_EdDSA>>)), Map(<<<<UInt(7), Cs3>>>>), SigBytes>>)
SgBases == <<SgBase1, SgBase2, SgBase3>>

\* bodies of COSE_Sign (4-arrays)
SnBase1 == Arr(<<BstrW(Map(<<>>)), Map(<<>>), Bstr(<<1>>), Arr(<<Cs1>>)>>)
SnBase2 == Arr(<<BstrW(Map(<<<<UInt(3), UInt(0)>>>>)), Map(<<<<UInt(4), Bstr(<<49>>)>>>>), Null, Arr(<<Cs1, SgBase2>>)>>)
SnBases == <<SnBase1, SnBase2>>

BasesOf(kind) == CASE kind \in {"sign1", "sign1u"} -> S1Bases [] kind = "sign" -> SnBases [] kind \in {"sig", "csig"} -> SgBases
Prefix(kind) == CASE kind = "sign1" -> <<210>> [] kind = "sign" -> <<216, 98>> [] OTHER -> <<>>
Wire(kind, t) == Prefix(kind) \o Enc(t)
=============================================================================
