------------------------------ MODULE Trace_C11 ------------------------------
(* Judge for C11: COSE_Sign verification is positional and all-or-nothing;      *)
(* signing fills every slot or reports an error; no or empty signatures can be  *)
(* neither encoded nor decoded.                                                 *)
EXTENDS CoseSystem, Json, TraceKit
Tr == ndJsonDeserialize("tr.ndjson")
VARIABLE l

ExpTbs(pre, j, ext) == SigStructure(LayerProtItem(pre), LayerProtItem(pre.sigs[j]), ext, pre.payload)
SlotAlgAgrees(pre, j, alg, ext) ==
  LET h == AlgOfBucket(pre.sigs[j].P) IN IF h.kind = "absent" THEN ext # <<>> ELSE AlgEq(h, alg)

\* The property fixes WHICH verifier judges WHICH signature over WHICH bytes and the overall verdict; it does not fix the
\* order of the calls nor whether verification stops at the first failure.
VerifyFails(e) ==
  LET k == Len(e.obs)
      v == e.obs[k]
      pre == e.obs[k - 1].post
      vs == e.steps[k].verifiers
      m == Len(pre.sigs)
      vc == CallsNamed(v.calls, "Verify")
      \* positions a recorded call may belong to: the verifier of that position, that signer's own Sig_structure, that slot's bytes
      PosOf(c) == { j \in 1..m : j <= Len(vs) /\ c.who = vs[j].name /\ c.content = ExpTbs(pre, j, e.ext) /\ c.sig = pre.sigs[j].sig }
      positional == \A i \in 1..Len(vc) : PosOf(vc[i]) # {}
      Verified(j) == \E i \in 1..Len(vc) : j \in PosOf(vc[i]) /\ vc[i].reterr = "ok"
      Failed(j) == \E i \in 1..Len(vc) : j \in PosOf(vc[i]) /\ vc[i].reterr # "ok"
  IN
  (IF v.res = "panic" THEN {"panic"} ELSE {})
  \* NoEmpty: whatever was done to the slots, a message with an empty signature cannot be serialised
  \cup (IF e.obs[k - 2].op = "marshal" /\ e.obs[k - 2].res = "ok" /\ \E j \in 1..m : pre.sigs[j].sig = <<>> THEN {"message-with-an-empty-signature-serialised"} ELSE {})
  \cup (IF ~positional THEN {"verifier-calls-not-positional-over-own-sig-structure"} ELSE {})
  \cup (IF positional /\ \E i \in 1..Len(vc) : \E j \in PosOf(vc[i]) : ~SlotAlgAgrees(pre, j, vs[j].alg, e.ext) THEN {"verifier-called-under-another-algorithm"} ELSE {})
  \cup (IF v.res = "ok" /\ ~(Len(vs) = m /\ m > 0 /\ \A j \in 1..m : Verified(j) /\ ~Failed(j)) THEN {"accepts-without-every-signature-verified-in-position"} ELSE {})
  \cup (IF v.res # "ok" /\ positional /\ Len(vs) = m /\ m > 0 /\ (\A j \in 1..m : Verified(j) /\ ~Failed(j))
        THEN {"rejects-although-every-signature-verifies-in-position"} ELSE {})

SignFails(e) ==
  LET s == e.obs[2]
      mm == e.obs[3]
      n == e.n
      sc == CallsNamed(s.calls, "Sign")
  IN
  IF n = 0 THEN (IF s.res = "ok" THEN {"signing-without-signature-slots-not-refused"} ELSE {})
                \cup (IF mm.res = "ok" THEN {"message-without-signatures-serialised"} ELSE {})
  ELSE (IF s.res = "ok" /\ (Len(sc) # n \/ \E j \in 1..n : s.post.sigs[j].sig = <<>>) THEN {"sign-ok-but-a-slot-is-empty"} ELSE {})
       \cup (IF s.res = "ok" /\ Len(sc) = n /\ \E j \in 1..n : sc[j].content # ExpTbs(s.post, j, e.ext) \/ sc[j].ret # s.post.sigs[j].sig
             THEN {"signer-input-or-stored-signature-not-positional"} ELSE {})
       \cup (IF s.res = "ok" /\ mm.res # "ok" THEN {"fully-signed-message-not-serialisable"} ELSE {})

FirstVerifyFails(e) ==
  LET k == IF e.dec THEN 5 ELSE 4 IN
  IF e.n > 0 /\ e.obs[2].res = "ok" /\ e.obs[k].op = "verify" /\ e.obs[k].res # "ok" THEN {"freshly-signed-message-does-not-verify"} ELSE {}
Fails(e) ==
  CASE e.flow = "baddecode" -> IF e.obs[1].res = "ok" THEN {"decoded-message-with-no-or-empty-signature"} ELSE {}
    [] e.flow = "panickey" /\ "crashed" \in DOMAIN e -> {"incomplete-process-aborted-by-a-panic-in-a-goroutine-the-library-started"}
    [] e.flow = "panickey" -> (IF e.obs[3].res = "ok" THEN {IF e.what = "sign" THEN "message-serialised-although-a-signer-panicked" ELSE "panicking-verifier-treated-as-success"} ELSE {})
                              \cup (IF e.what = "sign" /\ e.obs[2].res = "ok" THEN {"panicking-signer-treated-as-success"} ELSE {})
    [] e.flow = "nilslot" -> IF e.obs[3].res = "ok" THEN {"message-with-a-nil-signature-slot-" \o e.what} ELSE {}
    [] e.flow = "verify" -> SignFails(e) \cup FirstVerifyFails(e) \cup (IF e.n = 0 THEN (IF e.obs[Len(e.obs)].res = "ok" THEN {"verifies-without-signatures"} ELSE {}) ELSE VerifyFails(e))

TInit == l = 1 /\ KitInit
TNext == /\ l <= Len(Tr) /\ l' = l + 1
         /\ Note(l, Fails(Tr[l]))
TSpec == TInit /\ [][TNext]_l
Accepted == KitDone(Len(Tr))
=============================================================================
