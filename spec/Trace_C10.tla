------------------------------ MODULE Trace_C10 ------------------------------
(* Judge for C10: the bytes handed to the countersigner / verifier are the RFC  *)
(* 9338 Countersign_structure over the parent's exact fields; a countersignature *)
(* verifies iff those fields are unchanged; unsigned / payload-less parents are  *)
(* refused without touching the key; no replay across structure kinds or forms.  *)
EXTENDS CoseSystem, Json, TraceKit
Tr == ndJsonDeserialize("tr.ndjson")
VARIABLE l

ParentSig(pk, par) == IF pk = "sign" THEN <<>> ELSE par.sig
PayloadField(pk, par) == IF pk \in {"sign1", "sign"} THEN par.payload ELSE par.sig
\* expected structure; cs is the countersignature layer (ignored for abbreviated)
ExpStruct(pk, abbr, par, cs, ext) ==
  CountersignStructure(pk, abbr, LayerProtItem(par), IF abbr THEN Bstr(<<>>) ELSE LayerProtItem(cs), ext, PayloadField(pk, par), ParentSig(pk, par))
Usable(pk, par) == IF pk \in {"sign1", "sign"} THEN par.payload # NilPayload ELSE TRUE

BindFails(e) ==
  IF e.obs[1].res # "ok" THEN {"infra-parent-not-constructed"} ELSE
  LET k == Len(e.obs)
      s == e.obs[3]
      v == e.obs[k]
      par0 == e.obs[1].post
      par1 == e.obs[k - 1].post
      cs == IF e.abbr THEN par0 ELSE s.post
      sc == CallsNamed(s.calls, "Sign")
      vc == CallsNamed(v.calls, "Verify")
      signed == ExpStruct(e.pk, e.abbr, par0, cs, e.ext)
      toverify == ExpStruct(e.pk, e.abbr, par1, cs, e.ext)
  IN
  (IF s.res = "panic" \/ v.res = "panic" THEN {"panic"} ELSE {})
  \cup (IF s.res # "ok" THEN {"countersigning-a-signed-parent-fails"} ELSE {})
  \cup (IF s.res = "ok" /\ e.obs[4].res # "ok" THEN {"fresh-countersignature-does-not-verify"} ELSE {})
  \cup (IF s.res = "ok" /\ (Len(sc) # 1 \/ sc[1].content # signed) THEN {"countersigner-input-is-not-the-countersign-structure"} ELSE {})
  \cup (IF ~Usable(e.pk, par1) THEN
          (IF v.res = "ok" \/ Len(vc) > 0 THEN {"payload-less-parent-not-refused"} ELSE {})
        ELSE (IF Len(vc) # 1 THEN {"verifier-not-called-exactly-once"}
              ELSE (IF vc[1].content # toverify THEN {"verifier-input-is-not-the-countersign-structure"} ELSE {})
                   \cup (IF (v.res = "ok") # (vc[1].reterr = "ok") THEN {"verdict-differs-from-verifier"} ELSE {}))
             \cup (IF s.res = "ok" /\ (v.res = "ok") # (toverify = signed) THEN {"countersignature-not-bound-to-exact-parent"} ELSE {}))

RefuseFails(e) ==
  LET o == e.obs[Len(e.obs)] IN
  (IF o.res = "ok" \/ KeyCalled(o.calls) THEN {"unsigned-or-payload-less-parent-not-refused"} ELSE {})
  \cup (IF ~o.outnil THEN {"bytes-returned-for-refused-parent"} ELSE {})

ReplayFails(e) == IF e.obs[Len(e.obs)].res = "ok" THEN {"countersignature-replayed-as-" \o e.r} ELSE {}

\* decoded list of n countersignatures: observations 2n+4 .. 5n+3 are (extract, verify under own key, verify under the next entry's key) per entry
ListFails(e) ==
  LET n == e.n  base == 2 * n + 4 IN
  IF \E k \in 1..base : e.obs[k].res # "ok" THEN {"infra-list-program-did-not-run"} ELSE
  UNION { (IF e.obs[base + 3 * (i - 1) + 1].res # "ok" THEN {"decoded-list-entry-cannot-be-extracted"} ELSE {})
          \cup (IF e.obs[base + 3 * (i - 1) + 2].res # "ok" THEN {"decoded-list-entry-rejected-for-its-exact-parent"} ELSE {})
          \cup (IF e.obs[base + 3 * (i - 1) + 3].res = "ok" THEN {"decoded-list-entry-verifies-under-another-countersigner's-key"} ELSE {})
          : i \in 1..n }
Fails(e) == CASE e.flow = "list" -> ListFails(e) [] e.flow = "bind" -> BindFails(e) [] e.flow = "refuse" -> RefuseFails(e) [] e.flow = "replay" -> ReplayFails(e)

TInit == l = 1 /\ KitInit
TNext == /\ l <= Len(Tr) /\ l' = l + 1
         /\ Note(l, Fails(Tr[l]))
TSpec == TInit /\ [][TNext]_l
Accepted == KitDone(Len(Tr))
=============================================================================
