------------------------------- MODULE Gen_Wide -------------------------------
(* Wire images of COSE_Sign messages with many signatures and of messages whose buckets hold many or deeply nested entries: inputs for
   the no-panic / no-hang property (C06), whose follow-up operations (verification with one verifier per signature, re-encoding,
   countersignature extraction) must terminate on them. *)
EXTENDS GoValues, Json
AlgV == [t |-> "alg", neg |-> TRUE, a |-> <<6>>]
Lay(i) == [P |-> <<<<GoInt("int64", 1), AlgV>>>>, U |-> <<<<GoInt("int64", 4), GoBytes(<<i % 256>>)>>>>, sig |-> <<170, i % 256>>]
Wide(n) == ImageOf("sign", [P |-> <<<<GoInt("int64", 3), GoInt("int64", 0)>>>>, U |-> <<>>, payload |-> <<1, 2>>, sigs |-> [i \in 1..n |-> Lay(i)]])
ManyEntries(n) == ImageOf("sign1", [P |-> <<<<GoInt("int64", 1), AlgV>>>>, U |-> [i \in 1..n |-> <<GoInt("int64", 100 + i), GoInt("int64", i)>>], payload |-> <<1>>, sig |-> <<170, 187>>])
VARIABLE st
Init == st = [phase |-> 0]
Next == st.phase = 0 /\ \/ \E n \in {3, 5, 8, 9, 12, 17, 33, 64} : st' = [phase |-> 1, bytes |-> Wide(n)]
                        \/ \E n \in {24, 33, 257} : st' = [phase |-> 1, bytes |-> ManyEntries(n)]
Spec == Init /\ [][Next]_st
Emit == st.phase # 1 \/ PrintT(<<"CASE", ToJson([bytes |-> st.bytes])>>)
=============================================================================
