------------------------------ MODULE Trace_C06 ------------------------------
(* Judge for C06.  In the specification every decoding entry point and every   *)
(* follow-up operation is a total function with outcomes ok / err; a recorded   *)
(* "panic" or "timeout" therefore matches no action of the specification.  The  *)
(* specification's own decoders (byte-level parser + well-formedness) are        *)
(* evaluated on every input as well: totality of the model on the same inputs.   *)
EXTENDS CoseKey, Json, TraceKit
Tr == ndJsonDeserialize("tr.ndjson")
VARIABLE l

ModelTotal(b) == /\ \A kd \in Kinds : WFCose(kd, b) \in BOOLEAN
                 /\ LET r == ParseAll(b) IN (r.ok /\ r.item.k = "map") => (AcceptedKeyOK(r.item) \in BOOLEAN)
Fails(e) ==
  (IF e.bad # <<>> THEN {"panic-or-hang"} ELSE {})
  \cup (IF ~ModelTotal(e.bytes) THEN {"infra-model-not-total"} ELSE {})
TInit == l = 1 /\ KitInit
TNext == /\ l <= Len(Tr) /\ l' = l + 1
         /\ Note(l, Fails(Tr[l]))
TSpec == TInit /\ [][TNext]_l
Accepted == KitDone(Len(Tr))
=============================================================================
