------------------------------- MODULE Gen_C15 -------------------------------
(***************************************************************************)
(* Generator for C15 (and C06): COSE_Key maps.  Valid base keys (EC2       *)
(* P-256/384/521 private and public, OKP Ed25519, symmetric, custom kty)   *)
(* and every change of one (per tier: two) of the dimensions kty, crv,     *)
(* alg, key_ops, x, y, d, extra labels to every other value kind / length  *)
(* class, plus structural CBOR mutations of the resulting tree.            *)
(***************************************************************************)
EXTENDS CoseKey, Mutations, Json
CONSTANTS Depth, TreeMut     \* Depth: dimensions changed; TreeMut: also apply one structural mutation

Txt(s) == Tstr(s)
Fill(n, b) == [i \in 1..n |-> (b + i) % 256]
\* a choice is a record of dimension values; "-" = absent
KtyVals == {"-", "0", "1", "2", "4", "99", "text", "bstr"}
CrvVals == {"-", "0", "1", "2", "3", "4", "6", "7", "8", "99", "text", "bstr", "neg"}
AlgVals == {"-", "es256", "es384", "es512", "eddsa", "ps256", "0", "99", "text"}
OpsVals == {"-", "empty", "sign", "verify", "both", "tsign", "tboth", "unknown", "bstr", "notarray", "tunknown"}
LenVals == {"-", "0", "n-1", "n", "n+1", "int", "1", "z+n", "zz+n", "2n"}
ExtraVals == {"-", "tstr", "dupkid", "bstrlabel", "kid", "baseiv", "badkid"}

KtyItem(v) == CASE v = "0" -> UInt(0) [] v = "1" -> UInt(1) [] v = "2" -> UInt(2) [] v = "4" -> UInt(4) [] v = "99" -> UInt(99) [] v = "text" -> Txt(<<69, 67, 50>>) [] v = "bstr" -> Bstr(<<2>>)
CrvNum(v) == CASE v = "0" -> 0 [] v = "1" -> 1 [] v = "2" -> 2 [] v = "3" -> 3 [] v = "4" -> 4 [] v = "6" -> 6 [] v = "7" -> 7 [] v = "8" -> 8 [] v = "99" -> 99 [] OTHER -> 0
CrvItem(v) == CASE v = "text" -> Txt(<<80>>) [] v = "bstr" -> Bstr(<<1>>) [] v = "neg" -> NInt(0) [] OTHER -> UInt(CrvNum(v))
AlgItem(v) == CASE v = "es256" -> NInt(6) [] v = "es384" -> NInt(34) [] v = "es512" -> NInt(35) [] v = "eddsa" -> NInt(7) [] v = "ps256" -> NInt(36)
                [] v = "0" -> UInt(0) [] v = "99" -> UInt(99) [] v = "text" -> Txt(<<69, 83>>)
OpsItem(v) == CASE v = "empty" -> Arr(<<>>) [] v = "sign" -> Arr(<<UInt(1)>>) [] v = "verify" -> Arr(<<UInt(2)>>) [] v = "both" -> Arr(<<UInt(1), UInt(2)>>)
                [] v = "tsign" -> Arr(<<Txt(<<115, 105, 103, 110>>)>>) [] v = "tboth" -> Arr(<<Txt(<<118, 101, 114, 105, 102, 121>>), Txt(<<115, 105, 103, 110>>)>>)
                [] v = "unknown" -> Arr(<<UInt(9)>>) [] v = "bstr" -> Arr(<<Bstr(<<1>>)>>) [] v = "notarray" -> UInt(5) [] v = "tunknown" -> Arr(<<Txt(<<120>>)>>)
SizeFor(c) == IF c.kty = "1" THEN 32 ELSE (LET n == CurveSize(CrvNum(c.crv)) IN IF n = 0 \/ c.crv \in {"text", "bstr", "neg", "-"} THEN 32 ELSE n)
CoordItem(v, n, b) == CASE v = "0" -> Bstr(<<>>) [] v = "n-1" -> Bstr(Fill(n - 1, b)) [] v = "n" -> Bstr(Fill(n, b)) [] v = "n+1" -> Bstr(Fill(n + 1, b))
                        [] v = "int" -> UInt(7) [] v = "1" -> Bstr(<<b>>)
                        [] v = "z+n" -> Bstr(<<0>> \o Fill(n, b)) [] v = "zz+n" -> Bstr(<<0, 0, 0, 0, 0, 0, 0, 0>> \o Fill(n, b)) [] v = "2n" -> Bstr(Fill(2 * n, b))
Opt(lbl, v, item) == IF v = "-" THEN <<>> ELSE <<<<lbl, item>>>>
KeyTree(c) ==
  LET n == SizeFor(c) IN
  Map( Opt(UInt(1), c.kty, IF c.kty = "-" THEN Null ELSE KtyItem(c.kty))
    \o Opt(UInt(3), c.alg, IF c.alg = "-" THEN Null ELSE AlgItem(c.alg))
    \o Opt(UInt(4), c.ops, IF c.ops = "-" THEN Null ELSE OpsItem(c.ops))
    \o Opt(NInt(0), c.crv, IF c.crv = "-" THEN Null ELSE CrvItem(c.crv))
    \o Opt(NInt(1), c.x, IF c.x = "-" THEN Null ELSE CoordItem(c.x, n, 10))
    \o Opt(NInt(2), c.y, IF c.y = "-" THEN Null ELSE CoordItem(c.y, n, 20))
    \o Opt(NInt(3), c.d, IF c.d = "-" THEN Null ELSE CoordItem(c.d, n, 30))
    \o (CASE c.extra = "-" -> <<>> [] c.extra = "tstr" -> <<<<Txt(<<122>>), UInt(1)>>>> [] c.extra = "dupkid" -> <<<<UInt(2), Bstr(<<1>>)>>, <<[k |-> "uint", a |-> <<2>>, w |-> 1], Bstr(<<2>>)>>>>
          [] c.extra = "bstrlabel" -> <<<<Bstr(<<1>>), UInt(1)>>>> [] c.extra = "kid" -> <<<<UInt(2), Bstr(<<107>>)>>>>
          [] c.extra = "baseiv" -> <<<<UInt(5), Bstr(<<1, 2>>)>>>> [] c.extra = "badkid" -> <<<<UInt(2), UInt(1)>>>>) )

Bases ==
  { [kty |-> "2", crv |-> "1", alg |-> "es256", ops |-> "-", x |-> "n", y |-> "n", d |-> "n", extra |-> "-"],
    [kty |-> "2", crv |-> "2", alg |-> "-", ops |-> "verify", x |-> "n", y |-> "n", d |-> "-", extra |-> "kid"],
    [kty |-> "2", crv |-> "3", alg |-> "es512", ops |-> "both", x |-> "n-1", y |-> "n", d |-> "n", extra |-> "-"],
    [kty |-> "1", crv |-> "6", alg |-> "eddsa", ops |-> "-", x |-> "n", y |-> "-", d |-> "n", extra |-> "-"],
    [kty |-> "1", crv |-> "6", alg |-> "-", ops |-> "tboth", x |-> "n", y |-> "-", d |-> "-", extra |-> "baseiv"],
    [kty |-> "4", crv |-> "bstr", alg |-> "-", ops |-> "-", x |-> "-", y |-> "-", d |-> "-", extra |-> "-"],
    [kty |-> "99", crv |-> "bstr", alg |-> "-", ops |-> "-", x |-> "n", y |-> "-", d |-> "-", extra |-> "tstr"] }
\* symmetric key material is label -1 (same as crv): a bstr there
Dims == {"kty", "crv", "alg", "ops", "x", "y", "d", "extra"}
ValsOf(dim) == CASE dim = "kty" -> KtyVals [] dim = "crv" -> CrvVals [] dim = "alg" -> AlgVals [] dim = "ops" -> OpsVals
                 [] dim \in {"x", "y", "d"} -> LenVals [] dim = "extra" -> ExtraVals
Set(c, dim, v) == CASE dim = "kty" -> [c EXCEPT !.kty = v] [] dim = "crv" -> [c EXCEPT !.crv = v] [] dim = "alg" -> [c EXCEPT !.alg = v]
                    [] dim = "ops" -> [c EXCEPT !.ops = v] [] dim = "x" -> [c EXCEPT !.x = v] [] dim = "y" -> [c EXCEPT !.y = v]
                    [] dim = "d" -> [c EXCEPT !.d = v] [] dim = "extra" -> [c EXCEPT !.extra = v]

VARIABLE st
Init == st = [phase |-> 0]
Pick == st.phase = 0 /\ \E b \in Bases : st' = [phase |-> 1, c |-> b, n |-> 0, tree |-> <<>>]
Change == st.phase = 1 /\ st.n < Depth /\ st.tree = <<>> /\ \E dim \in Dims : \E v \in ValsOf(dim) : st' = [st EXCEPT !.c = Set(st.c, dim, v), !.n = st.n + 1]
TreeMutate == TreeMut /\ st.phase = 1 /\ st.tree = <<>> /\ \E p \in Paths(KeyTree(st.c)) : \E m \in NodeMutations(Get(KeyTree(st.c), p)) :
                st' = [st EXCEPT !.tree = Put(KeyTree(st.c), p, m)]
Next == Pick \/ Change \/ TreeMutate
Spec == Init /\ [][Next]_st
Tree == IF st.tree # <<>> THEN st.tree ELSE KeyTree(st.c)
Emit == st.phase # 1 \/ PrintT(<<"CASE", ToJson([c |-> st.c, mutated |-> st.tree # <<>>, bytes |-> Enc(Tree)])>>)
\* property on the specification: the base keys satisfy the acceptance predicate and their gates are as intended
BasesOK == (st.phase = 1 /\ st.n = 0 /\ st.tree = <<>>) => AcceptedKeyOK(KeyTree(st.c))
=============================================================================
