------------------------------- MODULE Gen_C01 -------------------------------
(***************************************************************************)
(* Generator for C01: happy-path programs with real keys.  Every structure *)
(* kind x algorithm x key provenance (native key, key rebuilt from a       *)
(* COSE_Key, opaque crypto.Signer) x header shape x payload size class x   *)
(* external data x attached/detached, each signed, verified in memory,     *)
(* serialised, parsed back (twice) and verified again; countersignatures   *)
(* (full and abbreviated) over every parent kind, pointer and value form,  *)
(* constructed and decoded parents, standalone and nested in the parent.   *)
(***************************************************************************)
EXTENDS CoseSystem, Json
CONSTANTS AlgNs,       \* algorithms as n with alg = -1-n (6 = ES256, 7 = EdDSA, 36 = PS256 ...)
          Flows,       \* subset of {"msg","detached","helper","sign","sigalone","cs","cs0"}
          PayloadNs,   \* payload size classes
          HdrIds       \* header shapes

Algs == {0 - 1 - n : n \in AlgNs}
AlgV(alg) == [t |-> "alg", neg |-> TRUE, a |-> NatToArg(0 - 1 - alg)]
KidN(n) == <<GoInt("int64", 4), GoBytes([i \in 1..n |-> 48 + (i % 10)])>>
NestedMap == [t |-> "map", ps |-> <<<<GoInt("int64", 2), GoStr(<<120>>)>>, <<GoInt("int64", 1), [t |-> "arr", xs |-> <<[t |-> "bool", v |-> TRUE], GoNeg("int64", 99)>>]>>>>]
\* a value nested n arrays deep, and a map nested n maps deep
RECURSIVE DeepArr(_)
DeepArr(n) == IF n = 0 THEN GoInt("int64", 1) ELSE [t |-> "arr", xs |-> <<DeepArr(n - 1)>>]
RECURSIVE DeepMap(_)
DeepMap(n) == IF n = 0 THEN GoStr(<<120>>) ELSE [t |-> "map", ps |-> <<<<GoInt("int64", n), DeepMap(n - 1)>>>>]
\* protected / unprotected shapes; id 1 leaves alg out (the signer's algorithm is inserted by Sign)
HdrP(id, alg) ==
  CASE id \in {1, 8} -> <<>>
    [] id = 2 -> <<<<GoInt("int64", 1), AlgV(alg)>>>>
    [] id = 3 -> <<<<GoInt("int", 1), [t |-> "int64", neg |-> TRUE, a |-> NatToArg(0 - 1 - alg)]>>, KidN(3), <<GoInt("int64", 2), [t |-> "arr", xs |-> <<GoInt("int64", 4)>>]>>,
                   <<GoInt("int64", 3), GoStr(<<97, 47, 98>>)>>>>
    [] id = 4 -> <<<<GoInt("int64", 1), AlgV(alg)>>, KidN(17), <<GoStr(<<120, 121>>), NestedMap>>, <<GoNeg("int16", 300), GoInt("uint16", 65535)>>>>
    [] id = 5 -> <<<<GoInt("int64", 1), AlgV(alg)>>, KidN(249)>>                \* protected map of exactly 255 bytes
    [] id = 6 -> <<<<GoInt("int64", 1), AlgV(alg)>>, KidN(250)>>                \* 256 bytes
    [] id = 9 -> <<<<GoInt("int64", 1), AlgV(alg)>>, <<GoInt("int64", 99), DeepArr(12)>>>>                       \* deeply nested values
    [] id = 10 -> <<<<GoInt("int64", 1), AlgV(alg)>>>> \o [i \in 1..300 |-> <<GoInt("int64", 1000 + i), GoInt("int64", i)>>]   \* hundreds of entries
    [] id = 7 -> <<<<GoInt("int64", 1), AlgV(alg)>>>> \o [i \in 1..30 |-> <<(IF i % 2 = 0 THEN GoInt("int16", 100 + i) ELSE GoNeg("int64", 200 + i)), GoInt("int64", i)>>]   \* dozens of entries
HdrU(id) ==
  CASE id \in {1, 2, 5, 8} -> <<>>
    [] id = 3 -> <<<<GoInt("int64", 5), GoBytes(<<1, 2, 3>>)>>, <<GoStr(<<117>>), NestedMap>>>>
    [] id \in {4, 6} -> <<<<GoInt("int64", 4), GoBytes(<<49>>)>>>>
    [] id = 7 -> [i \in 1..26 |-> <<GoStr(<<97 + (i % 26), 48 + (i % 10)>>), GoBytes(<<i>>)>>]
    [] id = 9 -> <<<<GoInt("int64", 98), DeepMap(12)>>>>
    [] id = 10 -> [i \in 1..300 |-> <<GoNeg("int64", 1000 + i), GoBytes(<<i % 256>>)>>]

Payload(n) == IF n <= 300 THEN [i \in 1..n |-> (i * 7) % 256] ELSE <<0 - 2, n \div 65536, (n \div 256) % 256, n % 256>>   \* token: harness expands
Exts == { [ext |-> <<>>, extnil |-> TRUE, extempty |-> FALSE], [ext |-> <<>>, extnil |-> FALSE, extempty |-> TRUE], [ext |-> <<9, 8, 7>>, extnil |-> FALSE, extempty |-> FALSE] }
\* "rsa2050": an RSA key whose modulus length is no multiple of 8 bits (adequate: above the 2048-bit minimum)
KeyKinds(alg) == IF alg \in {0 - 7, 0 - 35, 0 - 36} THEN {"builtin", "cosekey", "cryptosigner"} ELSE IF alg = 0 - 8 THEN {"builtin", "cosekey"}
                 ELSE IF alg \in {0 - 37, 0 - 38, 0 - 39} THEN {"builtin", "rsa2050"} ELSE {"builtin"}
S(alg, kk) == IF kk = "rsa2050" THEN [kind |-> "builtin", key |-> "rsa2050", name |-> "s", alg |-> alg, fault |-> ""] ELSE [kind |-> kk, name |-> "s", alg |-> alg, fault |-> ""]
V(alg, kk) == IF kk = "rsa2050" THEN [kind |-> "builtin", key |-> "rsa2050", name |-> "v", alg |-> alg, fault |-> ""]
              ELSE [kind |-> (IF kk = "cosekey" THEN "cosekey" ELSE "builtin"), name |-> "v", alg |-> alg, fault |-> ""]
Dummy == <<170, 187>>

\* header shape 8: both maps nil (the zero value of Headers), as callers of the Sign1 helpers commonly pass
NilMaps == [Pnil |-> TRUE, Unil |-> TRUE]
Msg(P, U, pay) == [P |-> P, U |-> U, payload |-> pay, sig |-> <<>>]
Lay(P, U) == [P |-> P, U |-> U, sig |-> <<>>]
MaybeNil(m, h) == IF h = 8 THEN m @@ NilMaps ELSE m

MsgProg(kind, P, U, pay, alg, kk, x) ==
  << [op |-> "new", obj |-> "m", kind |-> kind, m |-> Msg(P, U, pay)],
     [op |-> "sign", obj |-> "m", signers |-> <<S(alg, kk)>>] @@ x,
     [op |-> "verify", obj |-> "m", verifiers |-> <<V(alg, kk)>>] @@ x,
     [op |-> "marshal", obj |-> "m", buf |-> "b1"],
     [op |-> "unmarshal", obj |-> "m2", kind |-> kind, buf |-> "b1"],
     [op |-> "verify", obj |-> "m2", verifiers |-> <<V(alg, kk)>>] @@ x,
     [op |-> "marshal", obj |-> "m2", buf |-> "b2"],
     [op |-> "unmarshal", obj |-> "m3", kind |-> kind, buf |-> "b2"],
     [op |-> "verify", obj |-> "m3", verifiers |-> <<V(alg, kk)>>] @@ x >>
DetachedProg(kind, P, U, pay, alg, kk, x) ==
  << [op |-> "new", obj |-> "m", kind |-> kind, m |-> Msg(P, U, pay)],
     [op |-> "sign", obj |-> "m", signers |-> <<S(alg, kk)>>] @@ x,
     [op |-> "setpayload", obj |-> "m", payload |-> NilPayload],
     [op |-> "marshal", obj |-> "m", buf |-> "b1"],
     [op |-> "unmarshal", obj |-> "m2", kind |-> kind, buf |-> "b1"],
     [op |-> "setpayload", obj |-> "m2", payload |-> pay],
     [op |-> "verify", obj |-> "m2", verifiers |-> <<V(alg, kk)>>] @@ x >>
HelperProg(kind, P, U, pay, alg, kk, x) ==
  << [op |-> (IF kind = "sign1" THEN "sign1helper" ELSE "sign1untaggedhelper"), obj |-> "", m |-> Msg(P, U, pay), signers |-> <<S(alg, kk)>>, buf |-> "b1"] @@ x,
     [op |-> "unmarshal", obj |-> "m2", kind |-> kind, buf |-> "b1"],
     [op |-> "verify", obj |-> "m2", verifiers |-> <<V(alg, kk)>>] @@ x >>
\* COSE_Sign with signers of algorithms algs (a sequence)
SignProg(P, U, pay, algs, x) ==
  LET n == Len(algs)
      sg == [i \in 1..n |-> Lay(HdrP(IF i % 2 = 1 THEN 2 ELSE 1, algs[i]), IF i = 2 THEN HdrU(3) ELSE <<>>)]
      ss == [i \in 1..n |-> [kind |-> "builtin", name |-> "s", alg |-> algs[i], fault |-> ""]]
      vs == [i \in 1..n |-> [kind |-> "builtin", name |-> "v", alg |-> algs[i], fault |-> ""]] IN
  << [op |-> "new", obj |-> "m", kind |-> "sign", m |-> [P |-> P, U |-> U, payload |-> pay, sigs |-> sg]],
     [op |-> "sign", obj |-> "m", signers |-> ss] @@ x,
     [op |-> "verify", obj |-> "m", verifiers |-> vs] @@ x,
     [op |-> "marshal", obj |-> "m", buf |-> "b1"],
     [op |-> "unmarshal", obj |-> "m2", kind |-> "sign", buf |-> "b1"],
     [op |-> "verify", obj |-> "m2", verifiers |-> vs] @@ x,
     [op |-> "marshal", obj |-> "m2", buf |-> "b2"],
     [op |-> "unmarshal", obj |-> "m3", kind |-> "sign", buf |-> "b2"],
     [op |-> "verify", obj |-> "m3", verifiers |-> vs] @@ x >>
SigAloneProg(P, U, pay, alg, kk, x) ==
  LET bp == IF Len(pay) % 2 = 0 THEN <<67, 161, 3, 0>> ELSE <<89, 0, 3, 161, 3, 0>> IN
  << [op |-> "new", obj |-> "m", kind |-> "sig", m |-> Lay(P, U)],
     [op |-> "sign", obj |-> "m", signers |-> <<S(alg, kk)>>, bodyprot |-> bp, payload |-> pay] @@ x,
     [op |-> "verify", obj |-> "m", verifiers |-> <<V(alg, kk)>>, bodyprot |-> bp, payload |-> pay] @@ x,
     [op |-> "marshal", obj |-> "m", buf |-> "b1"],
     [op |-> "unmarshal", obj |-> "m2", kind |-> "sig", buf |-> "b1"],
     [op |-> "verify", obj |-> "m2", verifiers |-> <<V(alg, kk)>>, bodyprot |-> bp, payload |-> pay] @@ x >>

\* parents for countersignatures: [kind, m] already carrying a signature (any non-empty bytes make a "signed" parent)
Parent(pk, P, U, pay) ==
  CASE pk = "sign1" -> [P |-> P, U |-> U, payload |-> pay, sig |-> Dummy]
    [] pk = "sign"  -> [P |-> P, U |-> U, payload |-> pay, sigs |-> <<[P |-> <<>>, U |-> <<>>, sig |-> Dummy]>>]
    [] pk \in {"sig", "csig"} -> [P |-> P, U |-> U, sig |-> Dummy]
\* full countersignature: over a constructed parent, then over the same parent after a wire round trip,
\* standalone and nested in the parent's unprotected header (label 7 / 11)
CsProg(pk, form, label, P, U, pay, alg, kk, x) ==
  << [op |-> "new", obj |-> "par", kind |-> pk, m |-> Parent(pk, P, U, pay)],
     [op |-> "new", obj |-> "cs", kind |-> "csig", m |-> Lay(HdrP(2, alg), <<>>)],
     [op |-> "countersign", obj |-> "cs", parent |-> "par", form |-> form, signers |-> <<S(alg, kk)>>] @@ x,
     [op |-> "verifycs", obj |-> "cs", parent |-> "par", form |-> form, verifiers |-> <<V(alg, kk)>>] @@ x,
     [op |-> "marshal", obj |-> "cs", buf |-> "c1"],
     [op |-> "unmarshal", obj |-> "cs2", kind |-> "csig", buf |-> "c1"],
     [op |-> "verifycs", obj |-> "cs2", parent |-> "par", form |-> (IF form = "ptr" THEN "val" ELSE "ptr"), verifiers |-> <<V(alg, kk)>>] @@ x,
     [op |-> "attachcs", obj |-> "par", label |-> label, cs |-> "cs"],
     [op |-> "marshal", obj |-> "par", buf |-> "p1"],
     [op |-> "unmarshal", obj |-> "par2", kind |-> pk, buf |-> "p1"],
     [op |-> "extractcs", obj |-> "cs3", from |-> "par2", label |-> label],
     [op |-> "verifycs", obj |-> "cs3", parent |-> "par2", form |-> form, verifiers |-> <<V(alg, kk)>>] @@ x,
     \* countersign the decoded parent afresh
     [op |-> "new", obj |-> "cs4", kind |-> "csig", m |-> Lay(HdrP(1, alg), <<>>)],
     [op |-> "countersign", obj |-> "cs4", parent |-> "par2", form |-> form, signers |-> <<S(alg, kk)>>] @@ x,
     [op |-> "verifycs", obj |-> "cs4", parent |-> "par2", form |-> form, verifiers |-> <<V(alg, kk)>>] @@ x >>
\* a list of two countersignatures made with different keys and algorithms, nested in the parent, each verified after a wire round trip
CsListProg(pk, form, label, P, U, pay, alg, kk, x) ==
  LET alg2 == IF alg = 0 - 8 THEN 0 - 7 ELSE 0 - 8 IN
  << [op |-> "new", obj |-> "par", kind |-> pk, m |-> Parent(pk, P, U, pay)],
     [op |-> "new", obj |-> "cs1", kind |-> "csig", m |-> Lay(HdrP(2, alg), <<>>)],
     [op |-> "countersign", obj |-> "cs1", parent |-> "par", form |-> form, signers |-> <<S(alg, kk)>>] @@ x,
     [op |-> "new", obj |-> "cs2", kind |-> "csig", m |-> Lay(HdrP(3, alg2), <<>>)],
     [op |-> "countersign", obj |-> "cs2", parent |-> "par", form |-> form, signers |-> <<S(alg2, "builtin")>>] @@ x,
     [op |-> "attachcs", obj |-> "par", label |-> label, css |-> <<"cs1", "cs2", "cs1">>],
     [op |-> "marshal", obj |-> "par", buf |-> "p1"],
     [op |-> "unmarshal", obj |-> "par2", kind |-> pk, buf |-> "p1"],
     [op |-> "extractcs", obj |-> "c0", from |-> "par2", label |-> label, index |-> 0],
     [op |-> "verifycs", obj |-> "c0", parent |-> "par2", form |-> form, verifiers |-> <<V(alg, kk)>>] @@ x,
     [op |-> "extractcs", obj |-> "c1", from |-> "par2", label |-> label, index |-> 1],
     [op |-> "verifycs", obj |-> "c1", parent |-> "par2", form |-> form, verifiers |-> <<V(alg2, "builtin")>>] @@ x,
     [op |-> "extractcs", obj |-> "c2", from |-> "par2", label |-> label, index |-> 2],
     [op |-> "verifycs", obj |-> "c2", parent |-> "par2", form |-> form, verifiers |-> <<V(alg, kk)>>] @@ x >>
Cs0Prog(pk, form, label, P, U, pay, alg, kk, x) ==
  << [op |-> "new", obj |-> "par", kind |-> pk, m |-> Parent(pk, P, U, pay)],
     [op |-> "countersign0", obj |-> "", parent |-> "par", form |-> form, signers |-> <<S(alg, kk)>>, buf |-> "z"] @@ x,
     [op |-> "verifycs0", obj |-> "", parent |-> "par", form |-> form, verifiers |-> <<V(alg, kk)>>, buf |-> "z"] @@ x,
     [op |-> "attachcs", obj |-> "par", label |-> label, buf |-> "z"],
     [op |-> "marshal", obj |-> "par", buf |-> "p1"],
     [op |-> "unmarshal", obj |-> "par2", kind |-> pk, buf |-> "p1"],
     [op |-> "extractcs0", obj |-> "", from |-> "par2", label |-> label, buf |-> "z2"],
     [op |-> "verifycs0", obj |-> "", parent |-> "par2", form |-> form, verifiers |-> <<V(alg, kk)>>, buf |-> "z2"] @@ x >>

VARIABLE st
Init == st = [phase |-> 0]
PickFlow == st.phase = 0 /\ \E f \in Flows : \E alg \in Algs : \E kk \in KeyKinds(alg) : st' = [phase |-> 1, flow |-> f, alg |-> alg, kk |-> kk]
PickShape == st.phase = 1 /\ \E h \in HdrIds : \E n \in PayloadNs : \E x \in Exts :
               \* without alg in the header, signing needs empty external data to insert it (else verification has nothing to check)
               /\ st' = [st EXCEPT !.phase = 2] @@ [h |-> h, n |-> n, x |-> x]
PickVariant == st.phase = 2 /\
   \/ st.flow \in {"msg", "detached", "helper"} /\ \E kd \in {"sign1", "sign1u"} : st' = [st EXCEPT !.phase = 3] @@ [kind |-> kd]
   \/ st.flow \in {"sign", "sigalone"} /\ st' = [st EXCEPT !.phase = 3] @@ [kind |-> st.flow]
   \/ st.flow \in {"cs", "cs0", "cslist"} /\ \E pk \in {"sign1", "sign", "sig", "csig"} : \E form \in {"ptr", "val"} :
        st' = [st EXCEPT !.phase = 3] @@ [kind |-> pk, form |-> form]
Next == PickFlow \/ PickShape \/ PickVariant
Spec == Init /\ [][Next]_st

Prog ==
  LET P == HdrP(st.h, st.alg) U == HdrU(st.h) pay == Payload(st.n) IN
  CASE st.flow = "msg" -> MsgProg(st.kind, P, U, pay, st.alg, st.kk, st.x)
    [] st.flow = "detached" -> DetachedProg(st.kind, P, U, pay, st.alg, st.kk, st.x)
    [] st.flow = "helper" -> HelperProg(st.kind, P, U, pay, st.alg, st.kk, st.x)
    [] st.flow = "sign" -> SignProg(IF st.h = 1 THEN <<>> ELSE <<KidN(3)>>, U, pay, IF st.n % 3 = 0 THEN <<st.alg>> ELSE IF st.n % 3 = 1 THEN <<st.alg, 0 - 8>> ELSE <<0 - 7, st.alg, 0 - 8>>, st.x)
    [] st.flow = "sigalone" -> SigAloneProg(P, U, pay, st.alg, st.kk, st.x)
    [] st.flow = "cs" -> CsProg(st.kind, st.form, IF st.kind = "sign1" THEN 11 ELSE 7, IF st.h = 1 THEN <<>> ELSE P, <<>>, pay, st.alg, st.kk, st.x)
    [] st.flow = "cslist" -> CsListProg(st.kind, st.form, IF st.kind = "sign1" THEN 11 ELSE 7, IF st.h = 1 THEN <<>> ELSE P, <<>>, pay, st.alg, st.kk, st.x)
    [] st.flow = "cs0" -> Cs0Prog(st.kind, st.form, IF st.kind = "sign1" THEN 12 ELSE 9, IF st.h = 1 THEN <<>> ELSE P, <<>>, pay, st.alg, st.kk, st.x)
\* header shape 8 turns the maps of the message under construction into nil maps
NilProg == [i \in 1..Len(Prog) |-> IF st.h = 8 /\ Prog[i].op \in {"new", "sign1helper", "sign1untaggedhelper"} /\ (Prog[i].op # "new" \/ Prog[i].obj = "m")
                                    THEN [Prog[i] EXCEPT !.m = MaybeNil(Prog[i].m, 8)] ELSE Prog[i]]
Emit == st.phase # 3 \/
  PrintT(<<"CASE", ToJson([flow |-> st.flow, kind |-> st.kind, alg |-> st.alg, kk |-> st.kk, h |-> st.h, n |-> st.n, steps |-> NilProg])>>)
=============================================================================
