------------------------------- MODULE Gen_C17 -------------------------------
(* Generator for C17: the full NewSigner / NewVerifier matrix and the digest /  *)
(* message entry-point equivalence.                                             *)
EXTENDS CoseCrypto, Json
\* ... and identifiers that equal a built-in one modulo 2^8 / 2^16
AlgIds == BuiltIn \cup RSAlgs \cup {0, 99, 0 - 65537, 0 - 16} \cup {0 - 263, 0 - 264, 0 - 291, 0 - 293, 249, 248, 219, 0 - 65543, 0 - 65544, 65529}
SignerKinds == {"rsa1024", "rsa2047", "rsa2048", "rsa3072", "rsa2048e3", "rsa2048-opaque", "rsa1024-opaque", "rsa2047-opaque", "p224", "p256", "p384", "p521", "p256-opaque", "ed", "ed-opaque", "foreign-strange", "foreign-nil"}
VerifierKinds == {"rsa1024", "rsa2047", "rsa2048", "rsa3072", "rsa2048e3", "p224", "p256", "p384", "p521", "offcurve", "offcurve2", "offcurve2-p384", "offcurve2-p521", "infinity", "unreduced", "negative", "ecdsa-value", "ed", "ed-private", "strange", "nil"}
Hashes == {"sha256", "sha384", "sha512"}
CONSTANTS MsgLens

VARIABLE st
Init == st = [phase |-> 0]
PickFactory == st.phase = 0 /\ \E side \in {"signer", "verifier"} : \E alg \in AlgIds : \E kk \in (IF side = "signer" THEN SignerKinds ELSE VerifierKinds) :
                 st' = [phase |-> 1, what |-> "factory", side |-> side, alg |-> alg, keykind |-> kk]
PickDigest == st.phase = 0 /\ \E alg \in PSAlgs \cup ESAlgs : \E n \in MsgLens : \E sp \in {"Sign", "SignDigest"} : \E vp \in {"Verify", "VerifyDigest"} :
                 \E sh \in (IF sp = "Sign" THEN {HashOf(alg)} ELSE Hashes) : \E vh \in (IF vp = "Verify" THEN {HashOf(alg)} ELSE Hashes) : \E kk \in {"native", "opaque"} :
                 \* ECDSA algorithms do not fix the curve: also pair each with keys of the other curves
                 \E key \in (IF alg \in ESAlgs THEN {"default", "p256-a", "p384-a", "p521-a"} ELSE {"default"}) :
                 st' = [phase |-> 1, what |-> "digest", alg |-> alg, msglen |-> n, signpath |-> sp, verifypath |-> vp, signhash |-> sh, verifyhash |-> vh, keykind |-> kk, key |-> key]
Next == PickFactory \/ PickDigest
Spec == Init /\ [][Next]_st
Emit == st.phase # 1 \/ PrintT(<<"CASE", ToJson(st)>>)
=============================================================================
