-------------------------------- MODULE Gen_Env -------------------------------
(* Behaviours of EnvModel for replay: object "m" (a Sign1Message), buffer "w".  Every model action is one interpreter step; the
   protected bucket is always replaced as a whole (with raw bytes when the non-deterministic spelling is wanted), so that the
   abstraction function of Trace_Env can read the state back from the projected object. *)
EXTENDS EnvModel, GoValues, Json

L(n) == GoInt("int64", n)
AlgT(n) == [t |-> "alg", neg |-> TRUE, a |-> NatToArg(n)]
HVal(h) == CASE h = "s256" -> AlgT(15) [] h = "s384" -> AlgT(42) [] h = "unk" -> GoInt("int64", 99) [] h = "bad" -> GoStr(<<83>>)
HNum(h) == CASE h = "s256" -> 0 - 16 [] h = "s384" -> 0 - 43 [] OTHER -> 99
PctVal(c) == CASE c = "uint" -> GoInt("int64", 50) [] c = "tstr" -> GoStr(<<97, 47, 98>>) [] c = "bad" -> GoBytes(<<1>>)
LocVal(x) == CASE x = "tstr" -> GoStr(<<122>>) [] x = "bad" -> GoInt("int64", 1)
Opt(c, e) == IF c THEN <<e>> ELSE <<>>
PList(p) == <<<<L(1), AlgT(6)>>>> \o Opt(p.h # "none", <<L(258), HVal(p.h)>>) \o Opt(p.pct # "none", <<L(259), PctVal(p.pct)>>)
            \o Opt(p.loc # "none", <<L(260), LocVal(p.loc)>>) \o Opt(p.ct, <<L(3), GoInt("int64", 0)>>)
UList(u) == CASE u = "none" -> <<>> [] u = "kid" -> <<<<L(4), GoBytes(<<49>>)>>>> [] u = "u258" -> <<<<L(258), AlgT(15)>>>>
              [] u = "u259" -> <<<<L(259), GoInt("int64", 1)>>>> [] u = "u260" -> <<<<L(260), GoStr(<<122>>)>>>> [] u = "u3" -> <<<<L(3), GoInt("int64", 0)>>>>
PayBytes(n) == CASE n = "l32" -> [i \in 1..32 |-> (i * 3) % 256] [] n = "l48" -> [i \in 1..48 |-> (i * 3) % 256] [] n = "l31" -> [i \in 1..31 |-> (i * 3) % 256] [] n = "nil" -> NilPayload
\* the protected bucket on the wire: deterministic, or with the value of label 1 (the first pair) spelled with a one-byte argument
CanonMap(p) == Canon(BucketItem(PList(p)))
NcMap(p) == LET m == CanonMap(p) IN [m EXCEPT !.ps[1][2].w = 1]
ProtBytes(p) == Enc(Bstr(Enc(IF p.nc THEN NcMap(p) ELSE CanonMap(p))))
ProtStep(p) == [P |-> PList(p), rawP |-> (IF p.nc THEN ProtBytes(p) ELSE <<>>)]
Sg(k, f) == [kind |-> "sym", name |-> k, alg |-> 0 - 7, fault |-> f]
NoExt == [ext |-> <<>>, extnil |-> TRUE, extempty |-> FALSE]
JunkBytes == <<9, 9, 9>>
Absent == [t |-> "absent"]

InitStep == [op |-> "new", obj |-> "m", kind |-> "sign1", m |-> [P |-> PList(EInitObj.p), U |-> UList(EInitObj.u), payload |-> PayBytes(EInitObj.pay), sig |-> <<>>]]
BaseP(b) == IF b = "ct" THEN <<<<L(3), GoInt("int64", 0)>>>> ELSE <<>>
Concrete(a) ==
  CASE a.op = "produce" ->
         [op |-> "signhashenv", obj |-> "m", m |-> [P |-> BaseP(a.base), U |-> UList(BaseU(a.base)), rawP |-> <<>>, rawU |-> <<>>],
          hp |-> [alg |-> HNum(a.h), hash |-> PayBytes(a.pay), pct |-> (IF a.pct = "none" THEN Absent ELSE PctVal(a.pct)), loc |-> (IF a.loc = "none" THEN <<>> ELSE <<122>>)],
          signers |-> <<Sg(a.key, a.fault)>>, buf |-> "w"]
    [] a.op = "consume" -> [op |-> "verifyhashenv", obj |-> "m", buf |-> "w", keep |-> TRUE, verifiers |-> <<Sg(a.key, "")>>]
    [] a.op = "sign" -> [op |-> "sign", obj |-> "m", signers |-> <<Sg(a.key, a.fault)>>] @@ NoExt
    [] a.op = "verify" -> [op |-> "verify", obj |-> "m", verifiers |-> <<Sg(a.key, "")>>] @@ NoExt
    [] a.op = "marshal" -> [op |-> "marshal", obj |-> "m", buf |-> "w"]
    [] a.op = "unmarshal" -> [op |-> "unmarshal", obj |-> "m", kind |-> "sign1", buf |-> "w"]
    [] a.op = "edit" ->
         (CASE a.what = "p" -> [op |-> "setprot", obj |-> "m", m |-> ProtStep(a.vp)]
            [] a.what = "u" -> [op |-> "setunprot", obj |-> "m", m |-> [U |-> UList(a.v)]]
            [] a.what = "pay" -> [op |-> "setpayload", obj |-> "m", payload |-> PayBytes(a.v)]
            [] a.what = "sig" -> [op |-> "setsig", obj |-> "m", slot |-> 0, sig |-> (IF a.v = "junk" THEN JunkBytes ELSE <<>>)])
    [] a.op = "rewire" ->
         (CASE a.what = "p" -> [op |-> "rewire", obj |-> "m", buf |-> "w", idx |-> 0, elem |-> ProtBytes(a.vp)]
            [] a.what = "u" -> [op |-> "rewire", obj |-> "m", buf |-> "w", idx |-> 1, elem |-> Enc(UnprotMap(UList(a.v)))]
            [] a.what = "pay" -> [op |-> "rewire", obj |-> "m", buf |-> "w", idx |-> 2, elem |-> Enc(PayloadItem(PayBytes(a.v)))]
            [] a.what = "sig" -> [op |-> "rewire", obj |-> "m", buf |-> "w", idx |-> 3, elem |-> Enc(Bstr(IF a.v = "junk" THEN JunkBytes ELSE <<>>))])
Steps(h) == <<InitStep>> \o [i \in 1..Len(h) |-> Concrete(h[i])]

\* exhaustive short behaviours from later points: an envelope was produced (1); produced and consumed (2); a hand-made conforming envelope
\* was signed and serialised (3); the same over a non-deterministic spelling of the protected map (4), and consumed (5)
CONSTANT PrefixId
Prod == [op |-> "produce", h |-> "s256", pay |-> "l32", pct |-> "none", loc |-> "none", base |-> "none", key |-> "k1", fault |-> ""]
NcEdit == [op |-> "edit", what |-> "p", vp |-> [EInitObj.p EXCEPT !.nc = TRUE]]
Prefix == CASE PrefixId = 0 -> <<>>
            [] PrefixId = 1 -> <<Prod>>
            [] PrefixId = 2 -> <<Prod, [op |-> "consume", key |-> "k1"]>>
            [] PrefixId = 3 -> <<[op |-> "sign", key |-> "k1", fault |-> ""], [op |-> "marshal"]>>
            [] PrefixId = 4 -> <<NcEdit, [op |-> "sign", key |-> "k1", fault |-> ""], [op |-> "marshal"]>>          \* a conforming envelope signed over a non-deterministic spelling
            [] PrefixId = 6 -> <<[op |-> "edit", what |-> "pay", v |-> "l31"], [op |-> "sign", key |-> "k1", fault |-> ""], [op |-> "marshal"]>>   \* validly signed, wrong digest length
            [] PrefixId = 5 -> <<NcEdit, [op |-> "sign", key |-> "k1", fault |-> ""], [op |-> "marshal"], [op |-> "consume", key |-> "k1"]>>
RECURSIVE After(_, _, _)
After(o, w, h) == IF h = <<>> THEN [obj |-> o, wire |-> w] ELSE LET r == Step(o, w, Head(h)) IN After(r.obj, r.wire, Tail(h))
GInit == LET s == After(EInitObj, ENoWire, Prefix) IN
         obj = s.obj /\ wire = s.wire /\ last = [a |-> [op |-> "init"], res |-> "ok"] /\ hist = Prefix
GSpec == GInit /\ [][Next]_vars
Emit == Len(hist) < MaxHist \/ PrintT(<<"CASE", ToJson([envmodel |-> TRUE, acts |-> hist, steps |-> Steps(hist)])>>)
=============================================================================
