------------------------------- MODULE Trace_Env ------------------------------
(***************************************************************************)
(* Trace validation of recorded programs against EnvModel.  The            *)
(* abstraction function reads the model's state back from the projected    *)
(* Sign1Message (retained raw bytes first, as the library must) and from   *)
(* the bytes of the buffer; a signature's term is known from the signer    *)
(* call that produced its bytes.  Every observed step must be the          *)
(* transition Step allows from the OBSERVED pre-state as far as a listed   *)
(* property fixes it (reasons are tagged with the property); what the      *)
(* model says beyond the properties is tagged "impl:" and never alarms.    *)
(* Every byte string handed to a key is compared with the Sig_structure    *)
(* the specification builds from the received bytes / the observed object. *)
(***************************************************************************)
EXTENDS EnvModel, CoseStruct, CoseSystem, Json, TraceKit
Tr == ndJsonDeserialize("tr.ndjson")
VARIABLE l

KnownH == {"none", "s256", "s384", "unk", "bad"}
\* --- abstraction -------------------------------------------------------------------------------------------------------------
HClass(ps) == IF ~HasLabel(ps, LblHashAlg) THEN "none" ELSE
              LET v == ValueOf(ps, LblHashAlg) IN
              IF v.k = "nint" /\ v.a = <<15>> THEN "s256" ELSE IF v.k = "nint" /\ v.a = <<42>> THEN "s384"
              ELSE IF v.k = "uint" /\ v.a = <<99>> THEN "unk" ELSE IF v.k \in {"uint", "nint"} THEN "otherint" ELSE "bad"
PctClass(ps) == IF ~HasLabel(ps, LblPreimageCT) THEN "none" ELSE
                LET v == ValueOf(ps, LblPreimageCT) IN IF v.k = "uint" THEN "uint" ELSE IF v.k = "tstr" THEN "tstr" ELSE "bad"
LocClass(ps) == IF ~HasLabel(ps, LblLocation) THEN "none" ELSE IF ValueOf(ps, LblLocation).k = "tstr" THEN "tstr" ELSE "bad"
\* the protected bstr item -> the model's protected content (anything the generator never writes becomes a value outside the model)
AbsProtItem(x) ==
  LET pm == ProtMap(x) IN
  IF ~pm.ok THEN EProt("unparsable", "none", "none", FALSE, FALSE)
  ELSE LET inner == ParseAll(x.b) IN
       EProt(HClass(pm.ps), PctClass(pm.ps), LocClass(pm.ps), HasLabel(pm.ps, LblContentType), x.b # <<>> /\ inner.ok /\ ~IsDetItem(inner.item))
UClassPairs(ps) == IF ps = <<>> THEN "none" ELSE IF HasLabel(ps, LblHashAlg) THEN "u258" ELSE IF HasLabel(ps, LblPreimageCT) THEN "u259"
                   ELSE IF HasLabel(ps, LblLocation) THEN "u260" ELSE IF HasLabel(ps, LblContentType) THEN "u3" ELSE IF HasLabel(ps, LblKid) THEN "kid" ELSE "other"
PayClass(b) == IF b = NilPayload THEN "nil" ELSE IF Len(b) = 32 THEN "l32" ELSE IF Len(b) = 48 THEN "l48" ELSE IF Len(b) = 31 THEN "l31" ELSE "other"
TermOf(bytes, assoc) == IF bytes = <<>> THEN ENoSig ELSE IF \E p \in assoc : p[1] = bytes THEN (CHOOSE p \in assoc : p[1] = bytes)[2] ELSE EJunk

UnprotItemOf(post) == IF post.rawU # <<>> THEN (LET r == ParseAll(post.rawU) IN IF r.ok /\ r.item.k = "map" THEN r.item ELSE Map(<<>>)) ELSE UnprotMap(post.U)
AbsObj(post, assoc) == EObj(AbsProtItem(LayerProtItem(post)), UClassPairs(UnprotItemOf(post).ps), PayClass(post.payload), TermOf(post.sig, assoc))
WireItem(b) == Body("sign1", b)
WireOK(b) == b # <<>> /\ WireItem(b).ok /\ Len(WireItem(b).item.xs) = 4 /\ WireItem(b).item.xs[1].k = "bstr" /\ WireItem(b).item.xs[2].k = "map"
             /\ (WireItem(b).item.xs[3] = Null \/ WireItem(b).item.xs[3].k = "bstr") /\ WireItem(b).item.xs[4].k = "bstr"
AbsWire(b, assoc) ==
  IF ~WireOK(b) THEN ENoWire
  ELSE LET it == WireItem(b).item IN
       EWire(EObj(AbsProtItem(it.xs[1]), UClassPairs(it.xs[2].ps), IF it.xs[3] = Null THEN "nil" ELSE PayClass(it.xs[3].b), TermOf(it.xs[4].b, assoc)))
\* the parsed maps of a message that was handed out agree with its retained bytes
MapsAgree(post) == /\ Canon(BucketItem(post.P)) = (LET pm == ProtMap(LayerProtItem(post)) IN Canon(Map(pm.ps)))
                   /\ Canon(BucketItem(post.U)) = Canon(UnprotItemOf(post))

\* --- what was handed to the key --------------------------------------------------------------------------------------------
KeyCalls(obs) == SelectSeq(obs.calls, LAMBDA x : x.call \in {"Sign", "Verify"})
ObjStruct(post) == Sig1Structure(LayerProtItem(post), <<>>, IF post.payload = NilPayload THEN <<>> ELSE post.payload)
WireStruct(b) == LET it == WireItem(b).item IN Sig1Structure(it.xs[1], <<>>, IF it.xs[3] = Null THEN <<>> ELSE it.xs[3].b)
StructFails(a, obs, lastOut) ==
  LET kc == KeyCalls(obs) IN
  IF a.op \in {"sign", "verify"} /\ (\E i \in 1..Len(kc) : kc[i].content # ObjStruct(obs.post))
    THEN {"C02:key-input-is-not-the-sig-structure-over-the-current-fields", "C03:key-input-is-not-the-sig-structure-over-the-current-fields"}
  ELSE IF a.op = "consume" /\ WireOK(lastOut) /\ (\E i \in 1..Len(kc) : kc[i].content # WireStruct(lastOut))
    THEN {"C12:key-input-is-not-the-sig-structure-of-the-received-bytes", "C03:key-input-is-not-the-sig-structure-of-the-received-bytes", "C02:key-input-is-not-the-sig-structure-of-the-received-bytes"}
  ELSE IF a.op = "produce" /\ obs.res = "ok" /\ WireOK(obs.out) /\ (\E i \in 1..Len(kc) : kc[i].content # WireStruct(obs.out))
    THEN {"C12:signed-bytes-are-not-the-sig-structure-of-the-envelope", "C02:signed-bytes-are-not-the-sig-structure-of-the-envelope"}
  ELSE {}

\* --- one observed step ------------------------------------------------------------------------------------------------------
\* own: the key under which the bytes in the buffer were produced by SignHashEnvelope and not touched since ("none" otherwise)
Judge(a, o, w, obs, o2, w2, own) ==
  LET r == Step(o, w, a)
      res == obs.res
      okAgree == (res = "ok") = (r.res = "ok")
      InScope == o.p.h \in KnownH /\ (w.present => w.p.h \in KnownH)
  IN
  CASE a.op = "produce" ->
         (IF res = "ok" /\ ~w2.present THEN {"C12:produced-bytes-are-not-a-cose-sign1"} ELSE {})
         \cup (IF res = "ok" /\ w2.present /\ ~EnvConforming(w2.p, w2.u, w2.pay) THEN {"C12:nonconforming-envelope-produced"} ELSE {})
         \cup (IF res = "ok" /\ w2.present /\ (w2.p.h # a.h \/ w2.p.pct # a.pct \/ w2.p.loc # a.loc \/ w2.pay # a.pay) THEN {"C12:envelope-does-not-carry-the-given-values"} ELSE {})
         \cup (IF res = "ok" /\ w2.present /\ w2.sig # ESig(a.key, ETbs(w2.p, w2.pay)) THEN {"C12:envelope-not-signed-by-the-given-signer-over-its-own-content"} ELSE {})
         \cup (IF res = "ok" /\ a.fault # "" THEN {"C20:signer-error-not-returned"} ELSE {})
         \cup (IF res # "ok" /\ ~obs.outnil THEN {"C20:bytes-returned-together-with-an-error"} ELSE {})
         \cup (IF res # "ok" /\ r.res = "ok" THEN {"impl:conforming-request-refused"} ELSE {})
         \cup (IF o2 # o THEN {"C18:producing-an-envelope-modified-an-unrelated-message"} ELSE {})
    [] a.op = "consume" ->
         (IF (res = "ok") = obs.msgnil THEN {"C12:message-handed-out-together-with-an-error-or-withheld-without-one"} ELSE {})
         \cup (IF res = "ok" /\ r.res # "ok" /\ InScope
                 THEN (IF ~w.present \/ ~EnvConforming(w.p, w.u, w.pay) THEN {"C12:nonconforming-envelope-accepted"} ELSE {"C12:accepted-without-a-valid-signature", "C03:accepted-without-a-valid-signature"}) ELSE {})
         \cup (IF res # "ok" /\ r.res = "ok" THEN (IF own = a.key THEN {"C12:own-envelope-not-accepted-under-the-matching-key", "C01:own-envelope-not-accepted-under-the-matching-key"} ELSE {"impl:conforming-envelope-rejected"}) ELSE {})
         \cup (IF res = "ok" /\ r.res = "ok" /\ o2 # r.obj THEN {"C12:message-handed-out-is-not-the-envelope-received"} ELSE {})
         \cup (IF res = "ok" /\ r.res = "ok" /\ o2.p.nc # r.obj.p.nc THEN {"C09:message-handed-out-does-not-retain-the-received-header-bytes"} ELSE {})
         \cup (IF res = "ok" /\ ~MapsAgree(obs.post) THEN {"C12:maps-of-the-message-handed-out-differ-from-its-bytes", "C19:maps-of-the-message-handed-out-differ-from-its-bytes"} ELSE {})
         \cup (IF res # "ok" /\ obs.msgnil /\ o2 # o THEN {"C19:refused-envelope-modified-the-destination"} ELSE {})
         \cup (IF w2 # w THEN {"C18:verifying-modified-the-received-bytes"} ELSE {})
    [] a.op = "verify" ->
         (IF ~okAgree THEN {IF r.res = "ok" THEN "C01:valid-signature-rejected" ELSE "C03:invalid-signature-accepted"} ELSE {})
         \cup (IF o2 # o THEN {"C18:verify-modified-the-message"} ELSE {})
    [] a.op = "sign" /\ o.sig # ENoSig -> {}
    [] a.op = "sign" ->
         (IF ~okAgree THEN {IF r.res = "ErrInjected" THEN "C20:signer-error-not-returned" ELSE "C01:signing-verdict-differs"} ELSE {})
         \cup (IF okAgree /\ o2.sig # r.obj.sig THEN {IF r.res # "ok" THEN "C20:signature-stored-despite-failure" ELSE "C02:signature-not-over-the-sig-structure"} ELSE {})
    [] a.op = "marshal" ->
         (IF ~okAgree THEN {IF r.res = "ok" THEN "C08:signed-message-not-serialisable" ELSE "C20:unsigned-message-serialised"} ELSE {})
         \cup (IF okAgree /\ r.res = "ok" /\ w2 # r.wire THEN {"C09:serialisation-does-not-reproduce-the-retained-header-bytes-or-content"} ELSE {})
         \cup (IF o2 # o THEN {"C18:marshal-modified-the-message"} ELSE {})
    [] a.op = "unmarshal" ->
         (IF ~okAgree THEN {IF r.res = "ok" THEN "C07:conforming-message-rejected" ELSE "C05:malformed-message-accepted"} ELSE {})
         \cup (IF okAgree /\ r.res = "ok" /\ o2 # r.obj THEN {"C19:decoded-value-is-not-a-function-of-the-bytes"} ELSE {})
         \cup (IF res # "ok" /\ o2 # o THEN {"C19:failed-decode-modified-the-destination"} ELSE {})
    [] a.op = "edit" -> IF o2 # r.obj THEN {"infra-edit-not-as-modelled"} ELSE {}
    [] OTHER -> {}

RECURSIVE Walk(_, _, _, _, _, _, _)
Walk(e, k, o, w, assoc, lastOut, own) ==
  IF k > Len(e.acts) THEN {} ELSE
  LET a == e.acts[k]
      obs == e.obs[k + 1]
      signs == SelectSeq(obs.calls, LAMBDA c : c.call = "Sign" /\ c.reterr = "ok" /\ c.ret # <<>>)
      \* the term of a fresh signature is what the model says was signed (the bytes handed to the key are checked separately)
      mdl == Step(o, w, a)
      term == IF a.op = "sign" THEN ESig(a.key, ETbs(o.p, o.pay))
              ELSE IF a.op = "produce" /\ mdl.wire.present THEN mdl.wire.sig ELSE EJunk
      assoc2 == IF a.op \in {"sign", "produce"} /\ Len(signs) = 1 /\ term # EJunk THEN assoc \cup {<<signs[1].ret, term>>} ELSE assoc
      o2 == AbsObj(obs.post, assoc2)
      out2 == IF a.op \in {"marshal", "rewire", "produce"} THEN (IF obs.res = "ok" /\ ~obs.outnil THEN obs.out ELSE IF a.op = "rewire" THEN lastOut ELSE IF a.op = "produce" THEN <<>> ELSE lastOut) ELSE lastOut
      w2 == AbsWire(out2, assoc2)
      own2 == IF a.op = "produce" THEN (IF obs.res = "ok" THEN a.key ELSE "none") ELSE IF a.op \in {"marshal", "rewire"} THEN "none" ELSE own
  IN (IF obs.res = "panic" THEN {"C06:panic"} ELSE Judge(a, o, w, obs, o2, w2, own) \cup StructFails(a, obs, lastOut))
     \cup Walk(e, k + 1, o2, w2, assoc2, out2, own2)

Fails(e) == Walk(e, 1, AbsObj(e.obs[1].post, {}), ENoWire, {}, <<>>, "none")
TInit == l = 1 /\ KitInit /\ Init
TNext == /\ l <= Len(Tr) /\ l' = l + 1
         /\ UNCHANGED vars
         /\ Note(l, Fails(Tr[l]))
TSpec == TInit /\ [][TNext]_<<l, vars>>
Accepted == KitDone(Len(Tr))
=============================================================================
