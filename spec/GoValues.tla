------------------------------ MODULE GoValues ------------------------------
(***************************************************************************)
(* Dynamic-type model of the Go values a caller can put into header maps   *)
(* and messages, and their CBOR image: what a COSE encoder must emit for   *)
(* them.  An abstract Go value is a record with a type tag `t`:            *)
(*   integers  [t |-> "int8" | ... | "uint64" | "alg", neg, a]  (value =   *)
(*             a, or -1-a when neg; a is a minimal big-endian byte seq)    *)
(*   [t |-> "str", s], [t |-> "bytes", b], [t |-> "nilbytes"],             *)
(*   [t |-> "arr", xs], [t |-> "map", ps], [t |-> "bool", v], [t |-> "nil"]*)
(*   [t |-> "csig", x], [t |-> "csigs", xs], [t |-> "nilcsig"],            *)
(*   [t |-> "csigval", x], [t |-> "struct"], [t |-> "float"]               *)
(* A header bucket is a sequence of <<label, value>> pairs (a Go map may   *)
(* hold the same integer under two different Go types, hence a sequence).  *)
(* A layer is [P |-> bucket, U |-> bucket]; a signature object adds `sig`. *)
(***************************************************************************)
EXTENDS CoseStruct

SignedIntTypes == {"int", "int8", "int16", "int32", "int64"}
UnsignedIntTypes == {"uint", "uint8", "uint16", "uint32", "uint64"}
GoIntTypes == SignedIntTypes \cup UnsignedIntTypes
IsGoInt(v) == v.t \in GoIntTypes \cup {"alg"}

GoInt(t, n) == [t |-> t, neg |-> FALSE, a |-> NatToArg(n)]
GoNeg(t, n) == [t |-> t, neg |-> TRUE, a |-> NatToArg(n)]        \* value -1-n
GoStr(s) == [t |-> "str", s |-> s]
GoBytes(b) == [t |-> "bytes", b |-> b]

\* does integer (neg, a) fit Go type t?
ArgFits(a, maxArg) == ArgLe(a, maxArg)
FitsType(t, neg, a) ==
  CASE t = "int8"  -> ArgFits(a, <<127>>)
    [] t = "int16" -> ArgFits(a, <<127, 255>>)
    [] t = "int32" -> ArgFits(a, <<127, 255, 255, 255>>)
    [] t \in {"int", "int64", "alg"} -> ArgFits(a, <<127, 255, 255, 255, 255, 255, 255, 255>>)
    [] t = "uint8"  -> ~neg /\ ArgFits(a, <<255>>)
    [] t = "uint16" -> ~neg /\ ArgFits(a, <<255, 255>>)
    [] t = "uint32" -> ~neg /\ ArgFits(a, <<255, 255, 255, 255>>)
    [] t \in {"uint", "uint64"} -> ~neg /\ ArgFits(a, <<255, 255, 255, 255, 255, 255, 255, 255>>)
    [] OTHER -> FALSE

RECURSIVE ToItem(_)
RECURSIVE BucketItem(_)
RECURSIVE SigItem(_)

\* CBOR map for a bucket, entries in the given order (use Canon for the encoder's order)
BucketItem(ps) == Map([i \in 1..Len(ps) |-> <<ToItem(ps[i][1]), ToItem(ps[i][2])>>])
\* protected bucket on the wire: h'' when empty, else bstr of the deterministic map
ProtBstr(ps) == IF ps = <<>> THEN Bstr(<<>>) ELSE Bstr(Enc(Canon(BucketItem(ps))))
UnprotMap(ps) == Canon(BucketItem(ps))
SigItem(s) == Arr(<<ProtBstr(s.P), UnprotMap(s.U), Bstr(s.sig)>>)

ToItem(v) ==
  CASE IsGoInt(v) -> IF v.neg THEN NIntA(v.a) ELSE UIntA(v.a)
    [] v.t = "str" -> Tstr(v.s)
    [] v.t = "bytes" -> Bstr(v.b)
    [] v.t = "nilbytes" -> Null                       \* in this API a nil []byte is CBOR null (cf. the detached payload)
    [] v.t = "arr" -> Arr([i \in 1..Len(v.xs) |-> ToItem(v.xs[i])])
    [] v.t = "map" -> BucketItem(v.ps)
    [] v.t = "bool" -> IF v.v THEN True ELSE False
    [] v.t = "nil" -> Null
    [] v.t \in {"csig", "csigval"} -> SigItem(v.x)
    [] v.t = "csigs" -> Arr([i \in 1..Len(v.xs) |-> SigItem(v.xs[i])])
    [] v.t = "simple" -> Simple(v.v)
    [] v.t = "rawitem" -> ParseAll(v.b).item           \* a Go value whose type brings its own CBOR encoding (cbor.RawMessage): b is that encoding
    [] OTHER -> Undef                                \* nilcsig, struct, float: no CBOR image in the data model

\* ---------------------------------------------------------------------------
\* the supported data model (DESIGN.md 3.2): values for which encode/decode symmetry is demanded
\* ---------------------------------------------------------------------------
RECURSIVE InModel(_)
RECURSIVE LayerInModel(_)
ScalarKey(k) == IsGoInt(k) \/ k.t = "str"
InModelInt(v) == Int64Arg(v.a)
InModel(v) ==
  CASE IsGoInt(v) -> InModelInt(v)
    [] v.t \in {"str", "bytes", "nilbytes", "bool", "nil"} -> TRUE
    [] v.t = "arr" -> \A i \in 1..Len(v.xs) : InModel(v.xs[i])
    [] v.t = "map" -> \A i \in 1..Len(v.ps) : ScalarKey(v.ps[i][1]) /\ InModel(v.ps[i][1]) /\ InModel(v.ps[i][2])
    [] v.t = "csig" -> LayerInModel(v.x)
    [] v.t = "csigs" -> \A i \in 1..Len(v.xs) : LayerInModel(v.xs[i])
    [] OTHER -> FALSE
\* labels of any Go kind are in the model (a wrong kind must be refused both ways) unless they are ints beyond int64
LabelInModel(k) == IF IsGoInt(k) THEN InModelInt(k) ELSE k.t \in {"str", "bytes", "bool"}
\* countersignature parameters must be typed countersignature objects in Go: a generic []any under label 7/11
\* has the same CBOR image as a typed (possibly empty) list, so symmetry is not demanded of it
IsCsLabel(k) == IsGoInt(k) /\ ~k.neg /\ k.a \in {<<7>>, <<11>>}
BucketInModel(ps) == \A i \in 1..Len(ps) : /\ LabelInModel(ps[i][1]) /\ InModel(ps[i][2])
                                           /\ ~(IsCsLabel(ps[i][1]) /\ ps[i][2].t = "arr")
LayerInModel(s) == BucketInModel(s.P) /\ BucketInModel(s.U)
\* values with an encoding of their own (rawitem) are outside the model as far as symmetry goes, but whatever the encoder
\* makes of them can be held to the rules: DeRaw replaces them by an in-model placeholder for that purpose
RECURSIVE DeRaw(_)
RECURSIVE DeRawLayer(_)
DeRaw(v) == CASE v.t = "rawitem" -> [t |-> "nil"]
              [] v.t = "csig" -> [v EXCEPT !.x = DeRawLayer(v.x)]
              [] v.t = "csigs" -> [v EXCEPT !.xs = [i \in 1..Len(v.xs) |-> DeRawLayer(v.xs[i])]]
              [] OTHER -> v
DeRawBucket(ps) == [i \in 1..Len(ps) |-> <<ps[i][1], DeRaw(ps[i][2])>>]
DeRawLayer(s) == [s EXCEPT !.P = DeRawBucket(s.P), !.U = DeRawBucket(s.U)]

\* ---------------------------------------------------------------------------
\* wire image of a structure built from layers (signature bytes given)
\* ---------------------------------------------------------------------------
NilPayload == <<-1>>                                 \* a nil (detached) payload; payloads are byte sequences otherwise
PayloadItem(p) == IF p = NilPayload THEN Null ELSE Bstr(p)
Sign1Body(m) == Arr(<<ProtBstr(m.P), UnprotMap(m.U), PayloadItem(m.payload), Bstr(m.sig)>>)
SignBody(m) == Arr(<<ProtBstr(m.P), UnprotMap(m.U), PayloadItem(m.payload), Arr([i \in 1..Len(m.sigs) |-> SigItem(m.sigs[i])])>>)
ImageOf(kind, m) ==
  CASE kind = "sign1"  -> <<210>> \o Enc(Sign1Body(m))
    [] kind = "sign1u" -> Enc(Sign1Body(m))
    [] kind = "sign"   -> <<216, 98>> \o Enc(SignBody(m))
    [] kind \in {"sig", "csig"} -> Enc(SigItem(m))
    [] kind = "prot"   -> Enc(ProtBstr(m.P))
    [] kind = "unprot" -> Enc(UnprotMap(m.U))
=============================================================================
