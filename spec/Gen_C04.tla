------------------------------- MODULE Gen_C04 -------------------------------
(***************************************************************************)
(* Generator for C04: the algorithm-agreement grid.  Structure x header    *)
(* alg (absent / many integers / text / wrong type; label and value        *)
(* spelled with every Go integer type) x signer/verifier algorithm (incl.  *)
(* private-use ones from custom implementations) x external data x         *)
(* constructed / decoded x user-supplied raw protected bytes.  Programs    *)
(* use symbolic signers/verifiers (spies), so "the key is never invoked"   *)
(* is observable.                                                          *)
(***************************************************************************)
EXTENDS CoseSystem, Json
CONSTANTS LabelSpellings, Structs

A63 == <<127, 255, 255, 255, 255, 255, 255, 255>>
\* header alg values: <<type, neg, a>>
IntAlgs == { <<TRUE, <<6>>>>, <<TRUE, <<7>>>>, <<TRUE, <<35>>>>, <<TRUE, <<36>>>>, <<TRUE, <<1, 0>>>>, <<FALSE, <<>>>>,
             <<TRUE, <<1, 0, 0>>>>, <<FALSE, <<5>>>>, <<TRUE, A63>>, <<FALSE, A63>> }
ValueTypes == {"alg", "int", "int8", "int16", "int32", "int64", "uint8", "uint64"}
AlgValues == { [t |-> vt, neg |-> ia[1], a |-> ia[2]] : vt \in ValueTypes, ia \in IntAlgs }
FitAlgValues == { v \in AlgValues : FitsType(v.t, v.neg, v.a) }
OtherValues == { GoStr(<<69, 83, 50, 53, 54>>), GoBytes(<<1>>), [t |-> "arr", xs |-> <<GoNeg("int64", 6)>>], [t |-> "nil"],
                 [t |-> "uint64", neg |-> FALSE, a |-> <<255, 255, 255, 255, 255, 255, 255, 249>>] }     \* 2^64-7
Absent == [t |-> "absent"]
HdrAlgs == FitAlgValues \cup OtherValues
SignerAlgs == {0 - 7, 0 - 36, 0 - 65537, 5, 0}       \* 0: the reserved id - what a custom signer / verifier that never set its algorithm reports
Exts == { [ext |-> <<>>, extnil |-> TRUE, extempty |-> FALSE], [ext |-> <<>>, extnil |-> FALSE, extempty |-> TRUE], [ext |-> <<1, 2>>, extnil |-> FALSE, extempty |-> FALSE] }

Lbl1(t) == [t |-> t, neg |-> FALSE, a |-> <<1>>]
Kid == <<GoInt("int64", 4), GoBytes(<<49>>)>>
Pay == <<1, 2>>
Dummy == <<170, 187>>
BodyProt == <<64>>                         \* h'' as body_protected for standalone Signature
Signer(alg) == [kind |-> "sym", name |-> "k1", alg |-> alg, fault |-> ""]

\* in-memory protected bucket for a header alg choice ("absent" = no alg entry)
PBucket(lt, hv) == IF hv.t = "absent" THEN <<Kid>> ELSE <<<<Lbl1(lt), hv>>, Kid>>
\* UA: the unprotected bucket may name the key's algorithm (it is not signed and must not be consulted)
UAlg(alg) == <<<<Lbl1("int64"), [t |-> "alg", neg |-> alg < 0, a |-> AlgArg(alg)]>>>>
MsgU(kind, P, sig, U) ==
  CASE kind \in {"sign1", "sign1u"} -> [P |-> P, U |-> U, payload |-> Pay, sig |-> sig]
    [] kind \in {"sig", "csig"}     -> [P |-> P, U |-> U, sig |-> sig]
Msg(kind, P, sig) == MsgU(kind, P, sig, <<>>)
ParentMsg == [P |-> <<>>, U |-> <<>>, payload |-> Pay, sig |-> Dummy]

\* programs
SignProgU(struct, P, alg, x, U) ==
  CASE struct \in {"sign1", "sign1u"} ->
         << [op |-> "new", obj |-> "m", kind |-> struct, m |-> MsgU(struct, P, <<>>, U)],
            [op |-> "sign", obj |-> "m", signers |-> <<Signer(alg)>>] @@ x,
            [op |-> "marshal", obj |-> "m", buf |-> "b"] >>
    [] struct = "sig" ->
         << [op |-> "new", obj |-> "m", kind |-> "sig", m |-> MsgU("sig", P, <<>>, U)],
            [op |-> "sign", obj |-> "m", signers |-> <<Signer(alg)>>, bodyprot |-> BodyProt, payload |-> Pay] @@ x,
            [op |-> "marshal", obj |-> "m", buf |-> "b"] >>
    [] struct = "csig" ->
         << [op |-> "new", obj |-> "m", kind |-> "csig", m |-> MsgU("csig", P, <<>>, U)],
            [op |-> "new", obj |-> "par", kind |-> "sign1", m |-> ParentMsg],
            [op |-> "countersign", obj |-> "m", parent |-> "par", form |-> "ptr", signers |-> <<Signer(alg)>>] @@ x,
            [op |-> "marshal", obj |-> "m", buf |-> "b"] >>
    [] struct \in {"sign1helper", "sign1untaggedhelper"} ->
         << [op |-> struct, obj |-> "", m |-> MsgU("sign1", P, <<>>, U), signers |-> <<Signer(alg)>>, buf |-> "b"] @@ x >>
VerifyProgU(struct, P, alg, x, U) ==
  LET v == [kind |-> "sym", name |-> "k1", alg |-> alg, fault |-> "accept"] IN
  CASE struct \in {"sign1", "sign1u"} ->
         << [op |-> "new", obj |-> "m", kind |-> struct, m |-> MsgU(struct, P, Dummy, U)],
            [op |-> "verify", obj |-> "m", verifiers |-> <<v>>] @@ x >>
    [] struct = "sig" ->
         << [op |-> "new", obj |-> "m", kind |-> "sig", m |-> MsgU("sig", P, Dummy, U)],
            [op |-> "verify", obj |-> "m", verifiers |-> <<v>>, bodyprot |-> BodyProt, payload |-> Pay] @@ x >>
    [] struct = "csig" ->
         << [op |-> "new", obj |-> "m", kind |-> "csig", m |-> MsgU("csig", P, Dummy, U)],
            [op |-> "new", obj |-> "par", kind |-> "sign1", m |-> ParentMsg],
            [op |-> "verifycs", obj |-> "m", parent |-> "par", form |-> "val", verifiers |-> <<v>>] @@ x >>
\* decoded message: the wire image carries the alg variant; verification consults what was decoded
DecVerifyProgU(struct, P, alg, x, U) ==
  LET v == [kind |-> "sym", name |-> "k1", alg |-> alg, fault |-> "accept"]
      kd == IF struct = "csig" THEN "csig" ELSE struct IN
  CASE struct \in {"sign1", "sign1u"} ->
         << [op |-> "unmarshal", obj |-> "m", kind |-> struct, buf |-> "w", bytes |-> ImageOf(struct, MsgU(struct, P, Dummy, U))],
            [op |-> "verify", obj |-> "m", verifiers |-> <<v>>] @@ x >>
    [] struct = "sig" ->
         << [op |-> "unmarshal", obj |-> "m", kind |-> "sig", buf |-> "w", bytes |-> ImageOf("sig", MsgU("sig", P, Dummy, U))],
            [op |-> "verify", obj |-> "m", verifiers |-> <<v>>, bodyprot |-> BodyProt, payload |-> Pay] @@ x >>
    [] struct = "csig" ->
         << [op |-> "unmarshal", obj |-> "m", kind |-> "csig", buf |-> "w", bytes |-> ImageOf("csig", MsgU("csig", P, Dummy, U))],
            [op |-> "new", obj |-> "par", kind |-> "sign1", m |-> ParentMsg],
            [op |-> "verifycs", obj |-> "m", parent |-> "par", form |-> "ptr", verifiers |-> <<v>>] @@ x >>

SignProg(struct, P, alg, x) == SignProgU(struct, P, alg, x, <<>>)
VerifyProg(struct, P, alg, x) == VerifyProgU(struct, P, alg, x, <<>>)
DecVerifyProg(struct, P, alg, x) == DecVerifyProgU(struct, P, alg, x, <<>>)
\* user-supplied raw protected bytes that carry no alg: h'a0' (41 a0), {4: h'31'}, the same with a 2-byte length prefix
RawNoAlg == { <<65, 160>>, <<68, 161, 4, 65, 49>>, <<88, 4, 161, 4, 65, 49>> }
RawProg(struct, raw, nilmap, alg, x) ==
  LET m == [P |-> <<>>, U |-> <<>>, payload |-> Pay, sig |-> <<>>, rawP |-> raw] @@ (IF nilmap THEN [Pnil |-> TRUE] ELSE [nop |-> 0]) IN
  CASE struct \in {"sign1", "sign1u"} ->
         << [op |-> "new", obj |-> "m", kind |-> struct, m |-> m],
            [op |-> "sign", obj |-> "m", signers |-> <<Signer(alg)>>] @@ x,
            [op |-> "marshal", obj |-> "m", buf |-> "b"] >>
    [] struct \in {"sign1helper", "sign1untaggedhelper"} ->
         << [op |-> struct, obj |-> "", m |-> m, signers |-> <<Signer(alg)>>, buf |-> "b"] @@ x >>
VARIABLE st
Init == st = [phase |-> 0]
PickStruct == st.phase = 0 /\ \E s \in Structs : \E flow \in {"sign", "verify", "decverify", "poisoned"} :
                 ~(flow # "sign" /\ s \in {"sign1helper", "sign1untaggedhelper"})
                 /\ st' = [phase |-> 1, struct |-> s, flow |-> flow]
PickHdr == st.phase = 1 /\ \E hv \in HdrAlgs \cup {Absent} : \E lt \in (IF hv.t = "absent" THEN {"int64"} ELSE LabelSpellings) :
                 (st.flow \in {"decverify", "poisoned"} => lt = "int64")
                 /\ (st.flow = "poisoned" => hv.t \in {"absent", "alg"})
                 /\ st' = [phase |-> 2, struct |-> st.struct, flow |-> st.flow, P |-> PBucket(lt, hv)]
PickRest == st.phase = 2 /\ \E alg \in SignerAlgs : \E x \in Exts : \E ua \in BOOLEAN :
                 (ua => st.flow # "poisoned")
                 /\ st' = [phase |-> 3, struct |-> st.struct, flow |-> st.flow, P |-> st.P, alg |-> alg, x |-> x, ua |-> ua]
\* the same wire image was decoded before into another variable whose parsed map the caller then edited to the verifier's
\* algorithm: the message decoded afterwards must be judged by its own bytes
PoisonSteps(struct, P, alg) ==
  << [op |-> "unmarshal", obj |-> "m0", kind |-> struct, buf |-> "w0", bytes |-> ImageOf(struct, Msg(struct, P, Dummy))],
     [op |-> "setalg", obj |-> "m0", absent |-> FALSE, alg |-> alg] >>
PickRaw == st.phase = 0 /\ \E s \in {"sign1", "sign1u", "sign1helper", "sign1untaggedhelper"} : \E raw \in RawNoAlg : \E nm \in BOOLEAN : \E alg \in {0 - 7, 5} : \E x \in Exts :
             st' = [phase |-> 3, struct |-> s, flow |-> "sign", P |-> <<>>, alg |-> alg, x |-> x, raw |-> raw, nilmap |-> nm]
Next == PickStruct \/ PickHdr \/ PickRest \/ PickRaw
Spec == Init /\ [][Next]_st

Prog == CASE st.flow = "sign" /\ "raw" \in DOMAIN st -> RawProg(st.struct, st.raw, st.nilmap, st.alg, st.x)
          [] st.flow = "sign" -> SignProgU(st.struct, st.P, st.alg, st.x, IF st.ua THEN UAlg(st.alg) ELSE <<>>)
          [] st.flow = "verify" -> VerifyProgU(st.struct, st.P, st.alg, st.x, IF st.ua THEN UAlg(st.alg) ELSE <<>>)
          [] st.flow = "decverify" -> DecVerifyProgU(st.struct, st.P, st.alg, st.x, IF st.ua THEN UAlg(st.alg) ELSE <<>>)
          [] st.flow = "poisoned" -> PoisonSteps(st.struct, st.P, st.alg) \o DecVerifyProg(st.struct, st.P, st.alg, st.x)
Emit == st.phase # 3 \/
  PrintT(<<"CASE", ToJson([struct |-> st.struct, flow |-> (IF st.flow = "poisoned" THEN "decverify" ELSE st.flow), pre |-> (IF st.flow = "poisoned" THEN 2 ELSE 0),
                           P |-> st.P, ua |-> ("ua" \in DOMAIN st /\ st.ua), alg |-> st.alg, ext |-> st.x.ext, steps |-> Prog])>>)
=============================================================================
