------------------------------- MODULE Gen_C20 -------------------------------
(***************************************************************************)
(* Generator for C20: every assignment of {succeeds, error, empty          *)
(* signature, nil signature, bytes together with an error} to each signer  *)
(* call of Sign1Message.Sign, the Sign1 helpers, SignMessage.Sign (n       *)
(* signers), Signature.Sign, Countersignature.Sign, Countersign0 and       *)
(* SignHashEnvelope, followed by serialisation; every assignment of        *)
(* {answers, error} to the verifier calls of the matching Verify; built-in *)
(* signers driven by entropy sources that fail or run dry.                 *)
(***************************************************************************)
EXTENDS CoseSystem, Json
CONSTANTS MaxSigners

Faults == {"", "err", "empty", "nil", "bytesPerr"}
FName(f) == IF f = "bytesPerr" THEN "bytes+err" ELSE f
VFaults == {"", "err", "err1accept"}       \* err1accept: an outage on the first call; whatever is asked afterwards is answered with yes
AlgV == [t |-> "alg", neg |-> TRUE, a |-> <<6>>]
P1 == <<<<GoInt("int64", 1), AlgV>>>>
Pay == <<1, 2>>
Dummy == <<170, 187>>
Sg(i, f) == [kind |-> "sym", name |-> ("k" \o ToString(i)), alg |-> 0 - 7, fault |-> FName(f)]
Vf(i, g) == [kind |-> "sym", name |-> ("k" \o ToString(i)), alg |-> 0 - 7, fault |-> g]
X == [ext |-> <<>>, extnil |-> TRUE, extempty |-> FALSE]
Lay == [P |-> P1, U |-> <<>>, sig |-> <<>>]
Vectors(n, S) == [1..n -> S]

SignProg(shape, fs) ==
  CASE shape \in {"sign1", "sign1u"} ->
         << [op |-> "new", obj |-> "m", kind |-> shape, m |-> [P |-> P1, U |-> <<>>, payload |-> Pay, sig |-> <<>>]],
            [op |-> "sign", obj |-> "m", signers |-> <<Sg(1, fs[1])>>] @@ X,
            [op |-> "marshal", obj |-> "m", buf |-> "b"] >>
    [] shape \in {"sign1helper", "sign1untaggedhelper"} ->
         << [op |-> shape, obj |-> "", m |-> [P |-> P1, U |-> <<>>, payload |-> Pay, sig |-> <<>>], signers |-> <<Sg(1, fs[1])>>, buf |-> "b"] @@ X >>
    [] shape = "sign" ->
         << [op |-> "new", obj |-> "m", kind |-> "sign", m |-> [P |-> <<>>, U |-> <<>>, payload |-> Pay, sigs |-> [i \in 1..Len(fs) |-> Lay]]],
            [op |-> "sign", obj |-> "m", signers |-> [i \in 1..Len(fs) |-> Sg(i, fs[i])]] @@ X,
            [op |-> "marshal", obj |-> "m", buf |-> "b"] >>
    [] shape = "sig" ->
         << [op |-> "new", obj |-> "m", kind |-> "sig", m |-> Lay],
            [op |-> "sign", obj |-> "m", signers |-> <<Sg(1, fs[1])>>, bodyprot |-> <<64>>, payload |-> Pay] @@ X,
            [op |-> "marshal", obj |-> "m", buf |-> "b"] >>
    [] shape = "cs" ->
         << [op |-> "new", obj |-> "m", kind |-> "csig", m |-> Lay],
            [op |-> "new", obj |-> "par", kind |-> "sign1", m |-> [P |-> P1, U |-> <<>>, payload |-> Pay, sig |-> Dummy]],
            [op |-> "countersign", obj |-> "m", parent |-> "par", form |-> "ptr", signers |-> <<Sg(1, fs[1])>>] @@ X,
            [op |-> "marshal", obj |-> "m", buf |-> "b"] >>
    [] shape = "cs0" ->
         << [op |-> "new", obj |-> "par", kind |-> "sign1", m |-> [P |-> P1, U |-> <<>>, payload |-> Pay, sig |-> Dummy]],
            [op |-> "countersign0", obj |-> "", parent |-> "par", form |-> "val", signers |-> <<Sg(1, fs[1])>>, buf |-> "b"] @@ X >>
    [] shape = "henv" ->
         << [op |-> "signhashenv", obj |-> "", m |-> [P |-> <<>>, U |-> <<>>], hp |-> [alg |-> 0 - 16, hash |-> [i \in 1..32 |-> i], loc |-> <<>>],
             signers |-> <<Sg(1, fs[1])>>, buf |-> "b"] >>
\* a properly signed object, then verification where verifier i answers or fails with its own error
VerifyProg(shape, gs) ==
  CASE shape \in {"sign1", "sign1u"} ->
         << [op |-> "new", obj |-> "m", kind |-> shape, m |-> [P |-> P1, U |-> <<>>, payload |-> Pay, sig |-> <<>>]],
            [op |-> "sign", obj |-> "m", signers |-> <<Sg(1, "")>>] @@ X,
            [op |-> "verify", obj |-> "m", verifiers |-> <<Vf(1, gs[1])>>] @@ X >>
    [] shape = "sign" ->
         << [op |-> "new", obj |-> "m", kind |-> "sign", m |-> [P |-> <<>>, U |-> <<>>, payload |-> Pay, sigs |-> [i \in 1..Len(gs) |-> Lay]]],
            [op |-> "sign", obj |-> "m", signers |-> [i \in 1..Len(gs) |-> Sg(i, "")]] @@ X,
            [op |-> "verify", obj |-> "m", verifiers |-> [i \in 1..Len(gs) |-> Vf(i, gs[i])]] @@ X >>
    [] shape = "sig" ->
         << [op |-> "new", obj |-> "m", kind |-> "sig", m |-> Lay],
            [op |-> "sign", obj |-> "m", signers |-> <<Sg(1, "")>>, bodyprot |-> <<64>>, payload |-> Pay] @@ X,
            [op |-> "verify", obj |-> "m", verifiers |-> <<Vf(1, gs[1])>>, bodyprot |-> <<64>>, payload |-> Pay] @@ X >>
    [] shape = "cs" ->
         << [op |-> "new", obj |-> "m", kind |-> "csig", m |-> Lay],
            [op |-> "new", obj |-> "par", kind |-> "sign1", m |-> [P |-> P1, U |-> <<>>, payload |-> Pay, sig |-> Dummy]],
            [op |-> "countersign", obj |-> "m", parent |-> "par", form |-> "ptr", signers |-> <<Sg(1, "")>>] @@ X,
            [op |-> "verifycs", obj |-> "m", parent |-> "par", form |-> "ptr", verifiers |-> <<Vf(1, gs[1])>>] @@ X >>
    [] shape = "cs0" ->
         << [op |-> "new", obj |-> "par", kind |-> "sign1", m |-> [P |-> P1, U |-> <<>>, payload |-> Pay, sig |-> Dummy]],
            [op |-> "countersign0", obj |-> "", parent |-> "par", form |-> "val", signers |-> <<Sg(1, "")>>, buf |-> "b"] @@ X,
            [op |-> "verifycs0", obj |-> "", parent |-> "par", form |-> "val", verifiers |-> <<Vf(1, gs[1])>>, buf |-> "b"] @@ X >>
    [] shape = "henv" ->
         << [op |-> "signhashenv", obj |-> "", m |-> [P |-> <<>>, U |-> <<>>], hp |-> [alg |-> 0 - 16, hash |-> [i \in 1..32 |-> i], loc |-> <<>>],
             signers |-> <<Sg(1, "")>>, buf |-> "b"],
            [op |-> "verifyhashenv", obj |-> "r", buf |-> "b", verifiers |-> <<Vf(1, gs[1])>>] >>
\* built-in signers with an entropy source that fails at once, runs dry after k bytes (error or short reads), or is fine
Rands == { [budget |-> 0, short |-> FALSE, eof |-> FALSE], [budget |-> 7, short |-> FALSE, eof |-> FALSE], [budget |-> 7, short |-> TRUE, eof |-> FALSE],
           [budget |-> 40, short |-> FALSE, eof |-> FALSE], [budget |-> 0 - 1, short |-> FALSE, eof |-> FALSE],
           [budget |-> 0, short |-> FALSE, eof |-> TRUE], [budget |-> 7, short |-> FALSE, eof |-> TRUE], [budget |-> 40, short |-> FALSE, eof |-> TRUE] }     \* eof: a finite source (file, pipe) that ran dry
EntropyProgS(shape, alg, r, s) ==
  CASE shape = "sign1" ->
         << [op |-> "new", obj |-> "m", kind |-> "sign1", m |-> [P |-> <<>>, U |-> <<>>, payload |-> Pay, sig |-> <<>>]],
            [op |-> "sign", obj |-> "m", signers |-> <<s>>, rand |-> r] @@ X,
            [op |-> "marshal", obj |-> "m", buf |-> "b"] >>
    [] shape = "sign1helper" ->
         << [op |-> "sign1helper", obj |-> "", m |-> [P |-> <<>>, U |-> <<>>, payload |-> Pay, sig |-> <<>>], signers |-> <<s>>, buf |-> "b", rand |-> r] @@ X >>
    [] shape = "sign" ->
         << [op |-> "new", obj |-> "m", kind |-> "sign", m |-> [P |-> <<>>, U |-> <<>>, payload |-> Pay, sigs |-> <<[P |-> <<>>, U |-> <<>>, sig |-> <<>>], [P |-> <<>>, U |-> <<>>, sig |-> <<>>]>>]],
            [op |-> "sign", obj |-> "m", signers |-> <<[kind |-> "builtin", name |-> "b0", alg |-> 0 - 8, fault |-> ""], s>>, rand |-> r] @@ X,
            [op |-> "marshal", obj |-> "m", buf |-> "b"] >>
    [] shape = "cs0" ->
         << [op |-> "new", obj |-> "par", kind |-> "sign1", m |-> [P |-> P1, U |-> <<>>, payload |-> Pay, sig |-> Dummy]],
            [op |-> "countersign0", obj |-> "", parent |-> "par", form |-> "val", signers |-> <<s>>, buf |-> "b", rand |-> r] @@ X >>

EntropyProg(shape, alg, r) == EntropyProgS(shape, alg, r, [kind |-> "builtin", name |-> "b", alg |-> alg, fault |-> ""])
\* built-in signers over a key that fails (an HSM / KMS / agent behind crypto.Signer): error, empty or nil signature without an error
KeyFaults == {"err", "empty", "nil"}
KeyFaultProg(shape, alg, kf) == EntropyProgS(shape, alg, [budget |-> 0 - 1, short |-> FALSE, eof |-> FALSE], [kind |-> "faultykey", name |-> "b", alg |-> alg, fault |-> kf])

OneSlot == {"sign1", "sign1u", "sign1helper", "sign1untaggedhelper", "sig", "cs", "cs0", "henv"}
VARIABLE st
Init == st = [phase |-> 0]
PickSign == st.phase = 0 /\
   \/ \E sh \in OneSlot : \E f \in Faults : st' = [phase |-> 1, flow |-> "sign", shape |-> sh, fs |-> <<f>>]
   \/ \E n \in 1..MaxSigners : \E v \in Vectors(n, Faults) : st' = [phase |-> 1, flow |-> "sign", shape |-> "sign", fs |-> [i \in 1..n |-> v[i]]]
PickVerify == st.phase = 0 /\
   \/ \E sh \in OneSlot \ {"sign1helper", "sign1untaggedhelper"} : \E g \in VFaults : st' = [phase |-> 1, flow |-> "verify", shape |-> sh, fs |-> <<g>>]
   \/ \E n \in 1..MaxSigners : \E v \in Vectors(n, VFaults) : st' = [phase |-> 1, flow |-> "verify", shape |-> "sign", fs |-> [i \in 1..n |-> v[i]]]
PickEntropy == st.phase = 0 /\ \E sh \in {"sign1", "sign1helper", "sign", "cs0"} : \E alg \in {0 - 7, 0 - 37, 0 - 8, 0 - 36} : \E r \in Rands :
                  st' = [phase |-> 1, flow |-> "entropy", shape |-> sh, fs |-> <<"">>, alg |-> alg, r |-> r]
\* more signers than the exhaustive vectors cover (work split over several workers, batches): one fault at each position, and none
OneFault(n, pos, f) == [i \in 1..n |-> IF i = pos THEN f ELSE ""]
PickWide == st.phase = 0 /\ \E n \in (MaxSigners + 1)..9 : \E pos \in 0..n :
               \/ \E f \in Faults \ {""} : st' = [phase |-> 1, flow |-> "sign", shape |-> "sign", fs |-> OneFault(n, pos, IF pos = 0 THEN "" ELSE f)]
               \/ st' = [phase |-> 1, flow |-> "verify", shape |-> "sign", fs |-> OneFault(n, pos, "err")]
PickKeyFault == st.phase = 0 /\ \E sh \in {"sign1", "sign1helper", "sign", "cs0"} : \E alg \in {0 - 7, 0 - 37, 0 - 38, 0 - 39, 0 - 8, 0 - 36} : \E kf \in KeyFaults :
                  st' = [phase |-> 1, flow |-> "keyfault", shape |-> sh, fs |-> <<kf>>, alg |-> alg]
Next == PickSign \/ PickVerify \/ PickEntropy \/ PickKeyFault \/ PickWide
Spec == Init /\ [][Next]_st
Prog == CASE st.flow = "sign" -> SignProg(st.shape, st.fs) [] st.flow = "verify" -> VerifyProg(st.shape, st.fs) [] st.flow = "entropy" -> EntropyProg(st.shape, st.alg, st.r)
          [] st.flow = "keyfault" -> KeyFaultProg(st.shape, st.alg, st.fs[1])
Emit == st.phase # 1 \/ PrintT(<<"CASE", ToJson([flow |-> st.flow, shape |-> st.shape, fs |-> [i \in 1..Len(st.fs) |-> FName(st.fs[i])], steps |-> Prog])>>)
=============================================================================
