------------------------------- MODULE EnvModel -------------------------------
(***************************************************************************)
(* The life cycle of a hash envelope (draft-ietf-cose-hash-envelope as the *)
(* property C12 states it) as a state machine: one COSE_Sign1 object `m`   *)
(* in memory and one byte buffer `w`.  The envelope is produced            *)
(* (SignHashEnvelope), consumed (VerifyHashEnvelope, which hands out a     *)
(* message object), handled as the ordinary COSE_Sign1 it is (decoded,     *)
(* verified, edited by its holder, signed again, serialised) and rewritten *)
(* in transit.  Header content is abstract: what the four governed labels  *)
(* (258 hash algorithm, 259 preimage content type, 260 location, 3 content *)
(* type) look like in the protected bucket, which one entry the            *)
(* unprotected bucket holds, whether the protected map is spelled          *)
(* deterministically (`nc`: a non-minimal integer inside the map - other   *)
(* bytes, same content), the length class of the payload.  A signature is  *)
(* the term [key, tbs]; the signing algorithm is fixed (it is what the     *)
(* other models vary).  Same construction as the other life-cycle models:  *)
(* Step serves model checking, generation of behaviours, trace validation. *)
(***************************************************************************)
EXTENDS Naturals, Sequences, FiniteSets, TLC

CONSTANTS Keys,      \* key names
          HVals,     \* what label 258 may look like: subset of {"none", "s256", "s384", "unk", "bad"} ("unk": an id no hash is known for; "bad": not an integer)
          PctVals,   \* label 259: subset of {"none", "uint", "tstr", "bad"}
          LocVals,   \* label 260: subset of {"none", "tstr", "bad"}
          UVals,     \* the unprotected bucket: subset of {"none", "kid", "u258", "u259", "u260", "u3"}
          PayVals    \* payload: subset of {"l32", "l48", "l31", "nil"}   (nil = detached)

EProt(h, pct, loc, ct, nc) == [h |-> h, pct |-> pct, loc |-> loc, ct |-> ct, nc |-> nc]
Prots == { EProt(h, p, l, c, n) : h \in HVals, p \in PctVals, l \in LocVals, c \in BOOLEAN, n \in BOOLEAN }
ETbs(p, pay) == [p |-> p, pay |-> pay]                    \* Sig_structure: protected bytes (so nc matters) and payload; never the unprotected bucket
ESig(key, tbs) == [key |-> key, tbs |-> tbs]
NoProt == EProt("none", "none", "none", FALSE, FALSE)
ENoSig == ESig("none", ETbs(NoProt, "nil"))
EJunk == ESig("junk", ETbs(NoProt, "nil"))

EObj(p, u, pay, sig) == [p |-> p, u |-> u, pay |-> pay, sig |-> sig]
EInitObj == EObj(EProt("s256", "none", "none", FALSE, FALSE), "none", "l32", ENoSig)
ENoWire == [present |-> FALSE]
EWire(o) == [present |-> TRUE, p |-> o.p, u |-> o.u, pay |-> o.pay, sig |-> o.sig]

\* the rules of the property on a message's content
SizeOK(h, pay) == CASE h = "s256" -> pay = "l32" [] h = "s384" -> pay = "l48" [] OTHER -> pay # "nil"
EnvConforming(p, u, pay) ==
  /\ p.h \in {"s256", "s384", "unk"} /\ p.pct \in {"none", "uint", "tstr"} /\ p.loc \in {"none", "tstr"} /\ ~p.ct
  /\ u \in {"none", "kid"} /\ pay # "nil" /\ SizeOK(p.h, pay)

ERes(o, w, res) == [obj |-> o, wire |-> w, res |-> res]

\* SignHashEnvelope(signer, base headers, payload descriptor): base is what the caller already put into its header maps
BaseCt(b) == b = "ct"
BaseU(b) == CASE b = "kid" -> "kid" [] b = "u258" -> "u258" [] b = "u3" -> "u3" [] OTHER -> "none"
DoProduce(o, w, a) ==
  LET p == EProt(a.h, a.pct, a.loc, BaseCt(a.base), FALSE)
      u == BaseU(a.base) IN
  IF ~EnvConforming(p, u, a.pay) THEN ERes(o, ENoWire, "err")
  ELSE IF a.fault = "err" THEN ERes(o, ENoWire, "ErrInjected")
  ELSE ERes(o, EWire(EObj(p, u, a.pay, ESig(a.key, ETbs(p, a.pay)))), "ok")

\* VerifyHashEnvelope(verifier, bytes): decode, rules, signature; the message is handed out only on success
DoConsume(o, w, a) ==
  IF ~w.present THEN ERes(o, w, "err")
  ELSE IF w.sig = ENoSig THEN ERes(o, w, "err")
  ELSE IF ~EnvConforming(w.p, w.u, w.pay) THEN ERes(o, w, "err")
  ELSE IF w.sig # ESig(a.key, ETbs(w.p, w.pay)) THEN ERes(o, w, "ErrVerification")
  ELSE ERes(EObj(w.p, w.u, w.pay, w.sig), w, "ok")

\* the ordinary COSE_Sign1 operations on the same object / bytes
DoSign(o, w, a) ==
  IF o.pay = "nil" THEN ERes(o, w, "ErrMissingPayload")
  ELSE IF o.sig # ENoSig THEN ERes(o, w, "err")
  ELSE IF a.fault = "err" THEN ERes(o, w, "ErrInjected")
  ELSE ERes([o EXCEPT !.sig = ESig(a.key, ETbs(o.p, o.pay))], w, "ok")
DoVerify(o, w, a) ==
  IF o.pay = "nil" THEN ERes(o, w, "ErrMissingPayload")
  ELSE IF o.sig = ENoSig THEN ERes(o, w, "ErrEmptySignature")
  ELSE ERes(o, w, IF o.sig = ESig(a.key, ETbs(o.p, o.pay)) THEN "ok" ELSE "ErrVerification")
DoMarshal(o, w) == IF o.sig = ENoSig THEN ERes(o, w, "ErrEmptySignature") ELSE ERes(o, EWire(o), "ok")
DoUnmarshal(o, w) ==
  IF ~w.present THEN ERes(o, w, "err")
  ELSE IF w.sig = ENoSig THEN ERes(o, w, "ErrEmptySignature")
  ELSE ERes(EObj(w.p, w.u, w.pay, w.sig), w, "ok")                       \* a plain decoder knows nothing of envelopes
DoEdit(o, w, a) ==
  CASE a.what = "p"   -> ERes([o EXCEPT !.p = a.vp], w, "ok")
    [] a.what = "u"   -> ERes([o EXCEPT !.u = a.v], w, "ok")
    [] a.what = "pay" -> ERes([o EXCEPT !.pay = a.v], w, "ok")
    [] a.what = "sig" -> ERes([o EXCEPT !.sig = IF a.v = "junk" THEN EJunk ELSE ENoSig], w, "ok")
DoRewire(o, w, a) ==
  IF ~w.present THEN ERes(o, w, "ok")
  ELSE CASE a.what = "p"   -> ERes(o, [w EXCEPT !.p = a.vp], "ok")
         [] a.what = "u"   -> ERes(o, [w EXCEPT !.u = a.v], "ok")
         [] a.what = "pay" -> ERes(o, [w EXCEPT !.pay = a.v], "ok")
         [] a.what = "sig" -> ERes(o, [w EXCEPT !.sig = IF a.v = "junk" THEN EJunk ELSE ENoSig], "ok")

Step(o, w, a) ==
  CASE a.op = "produce"   -> DoProduce(o, w, a)
    [] a.op = "consume"   -> DoConsume(o, w, a)
    [] a.op = "sign"      -> DoSign(o, w, a)
    [] a.op = "verify"    -> DoVerify(o, w, a)
    [] a.op = "marshal"   -> DoMarshal(o, w)
    [] a.op = "unmarshal" -> DoUnmarshal(o, w)
    [] a.op = "edit"      -> DoEdit(o, w, a)
    [] a.op = "rewire"    -> DoRewire(o, w, a)

\* the payload descriptor of a producer call: a hash id (never absent, always an integer), a digest, optional fields of the right or a wrong type
ProdH == HVals \ {"none", "bad"}
ProdLoc == LocVals \ {"bad"}
ProdPay == PayVals \ {"nil"}
Bases == {"none", "ct", "kid", "u258", "u3"}
\* single-field edits of the protected bucket (the holder of a message edits one parameter at a time)
ProtEdits(p) == { [p EXCEPT !.h = x] : x \in HVals } \cup { [p EXCEPT !.pct = x] : x \in PctVals } \cup { [p EXCEPT !.loc = x] : x \in LocVals }
                \cup { [p EXCEPT !.ct = x] : x \in BOOLEAN } \cup { [p EXCEPT !.nc = x] : x \in BOOLEAN }
ActionsAt(o, w) ==
  { [op |-> "produce", h |-> h, pay |-> n, pct |-> c, loc |-> l, base |-> b, key |-> k, fault |-> f] :
       h \in ProdH, n \in ProdPay, c \in PctVals, l \in ProdLoc, b \in Bases, k \in Keys, f \in {"", "err"} }
  \cup { [op |-> "consume", key |-> k] : k \in Keys }
  \cup { [op |-> "sign", key |-> k, fault |-> f] : k \in Keys, f \in {"", "err"} }
  \cup { [op |-> "verify", key |-> k] : k \in Keys }
  \cup { [op |-> "marshal"], [op |-> "unmarshal"] }
  \cup { [op |-> "edit", what |-> "p", vp |-> x] : x \in ProtEdits(o.p) \ {o.p} }
  \cup { [op |-> "edit", what |-> "u", v |-> x] : x \in UVals }
  \cup { [op |-> "edit", what |-> "pay", v |-> x] : x \in PayVals }
  \cup { [op |-> "edit", what |-> "sig", v |-> x] : x \in {"none", "junk"} }
  \cup (IF w.present THEN { [op |-> "rewire", what |-> "p", vp |-> x] : x \in ProtEdits(w.p) \ {w.p} } ELSE {})
  \cup { [op |-> "rewire", what |-> "u", v |-> x] : x \in UVals }
  \cup { [op |-> "rewire", what |-> "pay", v |-> x] : x \in PayVals }
  \cup { [op |-> "rewire", what |-> "sig", v |-> x] : x \in {"none", "junk"} }

VARIABLES obj, wire, last, hist
vars == <<obj, wire, last, hist>>
CONSTANTS MaxHist, Record
Init == obj = EInitObj /\ wire = ENoWire /\ last = [a |-> [op |-> "init"], res |-> "ok"] /\ hist = <<>>
Next == /\ Record => Len(hist) < MaxHist
        /\ \E a \in ActionsAt(obj, wire) :
             LET r == Step(obj, wire, a) IN
             /\ obj' = r.obj /\ wire' = r.wire
             /\ last' = [a |-> a, res |-> r.res]
             /\ hist' = IF Record THEN Append(hist, a) ELSE hist
Spec == Init /\ [][Next]_vars
View == <<obj, wire>>
CONSTANT MaxLevel
LevelBound == TLCGet("level") <= MaxLevel

\* ---------------------------------------------------------------------------
\* properties on the model
\* ---------------------------------------------------------------------------
\* C12: a message is handed out only for a conforming envelope whose signature verifies over the received bytes, and it is that envelope
EV_OnlyConforming == [][ (last'.a.op = "consume" /\ last'.res = "ok") =>
   /\ wire.present /\ EnvConforming(wire.p, wire.u, wire.pay) /\ wire.sig = ESig(last'.a.key, ETbs(wire.p, wire.pay))
   /\ obj' = EObj(wire.p, wire.u, wire.pay, wire.sig) ]_vars
\* C12: whatever the producer emits is conforming, carries exactly what was given, and is accepted under the producing key and no other
EV_Producer == [][ last'.a.op = "produce" =>
   /\ (last'.res = "ok" => /\ wire'.present /\ EnvConforming(wire'.p, wire'.u, wire'.pay)
                           /\ wire'.p.h = last'.a.h /\ wire'.p.pct = last'.a.pct /\ wire'.p.loc = last'.a.loc /\ wire'.pay = last'.a.pay
                           /\ \A k \in Keys : (DoConsume(obj', wire', [op |-> "consume", key |-> k]).res = "ok") = (k = last'.a.key))
   /\ (last'.res # "ok" => ~wire'.present)
   /\ obj' = obj ]_vars
\* C12 / C03: VerifyHashEnvelope agrees with decode + rules + Verify
EV_Agreement == wire.present =>
   \A k \in Keys : LET u == DoUnmarshal(obj, wire) IN
     (DoConsume(obj, wire, [op |-> "consume", key |-> k]).res = "ok")
       = (u.res = "ok" /\ EnvConforming(wire.p, wire.u, wire.pay) /\ DoVerify(u.obj, wire, [op |-> "verify", key |-> k]).res = "ok")
\* C09 / C01: the message handed out serialises to the envelope it came from
EV_RoundTrip == [][ (last'.a.op = "consume" /\ last'.res = "ok") => DoMarshal(obj', wire').wire = wire ]_vars
\* C02 / C03: the unprotected bucket never influences a signature verdict; the spelling of the protected map does
EV_UnprotectedIrrelevant == \A k \in Keys, u \in UVals : DoVerify([obj EXCEPT !.u = u], wire, [op |-> "verify", key |-> k]).res = DoVerify(obj, wire, [op |-> "verify", key |-> k]).res
EV_SpellingSigned == \A k \in Keys : (obj.sig # ENoSig /\ obj.sig # EJunk /\ DoVerify(obj, wire, [op |-> "verify", key |-> k]).res = "ok")
                                        => DoVerify([obj EXCEPT !.p.nc = ~obj.p.nc], wire, [op |-> "verify", key |-> k]).res = "ErrVerification"
\* C18 / C19 / C20
EV_ReadOnly == [][ /\ (last'.a.op \in {"verify", "marshal"} => obj' = obj)
                   /\ (last'.a.op \in {"consume", "verify", "unmarshal", "sign", "edit"} => wire' = wire) ]_vars
EV_Atomic == [][ (last'.a.op \in {"consume", "unmarshal"} /\ last'.res # "ok") => obj' = obj ]_vars
EV_NoHalfSigned == [][ /\ ((last'.a.op = "sign" /\ last'.res # "ok") => obj'.sig = obj.sig)
                       /\ ((last'.a.op = "marshal" /\ last'.res = "ok") => wire'.sig # ENoSig) ]_vars
=============================================================================
