------------------------------- MODULE Trace_Sg -------------------------------
(***************************************************************************)
(* Trace validation of recorded programs against SignModel.  The projected *)
(* COSE_Sign object and the bytes of the buffer are mapped to the model's  *)
(* state; a signature's term is learnt from the signer call that produced  *)
(* its bytes, and every byte string handed to a key is compared with the   *)
(* Sig_structure the specification builds from the observed object for one *)
(* of the slots that key serves.  The code is held to what the properties  *)
(* fix: overall verdicts, which slots hold what after a failure, what may  *)
(* be serialised - not to the order of calls or to stopping early.         *)
(***************************************************************************)
EXTENDS SignModel, CoseSystem, Json, TraceKit
Tr == ndJsonDeserialize("tr.ndjson")
VARIABLE l

AlgName(h) == IF h.kind = "absent" THEN "none" ELSE IF h.kind = "int" /\ h.neg /\ h.a = <<6>> THEN "A" ELSE IF h.kind = "int" /\ h.neg /\ h.a = <<7>> THEN "B" ELSE "other"
WireAlgName(protItem) ==
  LET pm == ProtMap(protItem) IN
  IF ~pm.ok THEN "other" ELSE IF ~HasLabel(pm.ps, LblAlg) THEN "none"
  ELSE LET v == ValueOf(pm.ps, LblAlg) IN IF v.k = "nint" /\ v.a = <<6>> THEN "A" ELSE IF v.k = "nint" /\ v.a = <<7>> THEN "B" ELSE "other"
BProtName(protItem) == LET pm == ProtMap(protItem) IN IF ~pm.ok THEN "other" ELSE IF HasLabel(pm.ps, LblKid) THEN "y" ELSE "x"
PayloadName(p) == IF p = NilPayload THEN "nil" ELSE IF p = <<1>> THEN "p1" ELSE IF p = <<2>> THEN "p2" ELSE "other"
TermOf(bytes, assoc) == IF bytes = <<>> THEN NoSig ELSE IF \E p \in assoc : p[1] = bytes THEN (CHOOSE p \in assoc : p[1] = bytes)[2] ELSE Junk

AbsSlot(s, assoc) ==
  LET rp == IF s.rawP = <<>> THEN [ok |-> FALSE] ELSE ParseAll(s.rawP) IN
  [palg |-> AlgName(AlgOfBucket(s.P)), hasRaw |-> s.rawP # <<>>, ralg |-> (IF rp.ok THEN WireAlgName(rp.item) ELSE "none"), sig |-> TermOf(s.sig, assoc)]
NormSlot(s) == [s EXCEPT !.ralg = IF s.hasRaw THEN s.ralg ELSE "none"]
AbsMsg(post, assoc) ==
  [bprot |-> BProtName(LayerProtItem(post)), payload |-> PayloadName(post.payload),
   slots |-> [i \in 1..N |-> IF i <= Len(post.sigs) THEN NormSlot(AbsSlot(post.sigs[i], assoc)) ELSE InitSlot]]
NormMsg(m) == [m EXCEPT !.slots = [i \in 1..N |-> NormSlot(m.slots[i])]]
AbsWire(b, assoc) ==
  LET r == Body("sign", b) IN
  IF b = <<>> \/ ~r.ok \/ Len(r.item.xs) # 4 \/ r.item.xs[4].k # "arr" \/ Len(r.item.xs[4].xs) # N THEN NoWire
  ELSE LET it == r.item IN
       SWire(BProtName(it.xs[1]),
             IF it.xs[3] = Null THEN "nil" ELSE IF it.xs[3].k = "bstr" THEN PayloadName(it.xs[3].b) ELSE "other",
             [i \in 1..N |-> LET s == it.xs[4].xs[i] IN
                              IF s.k = "arr" /\ Len(s.xs) = 3 /\ s.xs[3].k = "bstr" THEN [palg |-> WireAlgName(s.xs[1]), sig |-> TermOf(s.xs[3].b, assoc)]
                              ELSE [palg |-> "other", sig |-> Junk]])

ExtBytes(e) == IF e = "none" THEN <<>> ELSE <<1, 2>>
Expected(post, i, ext) == SigStructure(LayerProtItem(post), LayerProtItem(post.sigs[i]), ExtBytes(ext), IF post.payload = NilPayload THEN <<>> ELSE post.payload)
\* every key call got the structure of a slot that this key serves in this call
StructOK(a, o, post) ==
  LET keyCalls == SelectSeq(o.calls, LAMBDA x : x.call \in {"Sign", "Verify"}) IN
  \A c \in 1..Len(keyCalls) : \E i \in 1..N : i <= Len(a.ks) /\ a.ks[i] = keyCalls[c].who /\ keyCalls[c].content = Expected(post, i, a.ext)

\* the term slot i gets when signer i signs it in this call (whether or not the model's sequential run reaches it)
WouldBe(m, i, a) == LET o == SignSlot(m, i, a.ks[i], a.as[i], a.ext, "") IN o.slot.sig

Judge(a, m, w, o, m2, w2, post) ==
  LET r == Step(m, w, a)
      res == o.res
      okAgree == (res = "ok") = (r.res = "ok")
      full == Len(a.ks) = N
  IN
  CASE a.op = "verify" ->
         (IF ~okAgree THEN {IF r.res \in {"ErrAlgorithmMismatch", "ErrAlgorithmNotFound"} THEN "C04:verify-proceeds-under-another-or-no-algorithm"
                            ELSE IF r.res = "ok" THEN "C01:valid-signatures-rejected" ELSE "C11:accepted-although-not-every-slot-verifies-in-position"} ELSE {})
         \cup (IF ~okAgree /\ r.res \in {"ErrVerification", "ErrEmptySignature"} THEN {"C03:verify-accepts-although-a-signature-is-not-valid-over-the-current-fields"} ELSE {})
         \cup (IF ~StructOK(a, o, post) THEN {"C11:verifier-input-is-not-a-served-slot's-sig-structure", "C02:key-input-is-not-the-sig-structure-over-the-current-fields"} ELSE {})
         \cup (IF NormMsg(m2) # NormMsg(m) THEN {"C18:verify-modified-the-message"} ELSE {})
    [] a.op = "sign" ->
         (IF ~okAgree THEN {IF r.res \in {"ErrAlgorithmMismatch", "ErrAlgorithmNotFound"} THEN "C04:sign-proceeds-under-another-or-no-algorithm"
                            ELSE IF r.res = "ErrInjected" THEN "C20:signer-error-not-returned" ELSE "C11:signing-verdict-differs"} ELSE {})
         \cup (IF ~StructOK(a, o, post) THEN {"C11:signer-input-is-not-a-served-slot's-sig-structure", "C02:key-input-is-not-the-sig-structure-over-the-current-fields"} ELSE {})
         \* slots: as the model says up to the slot where it stops; the stopping slot keeps its bytes; later slots either way
         \cup (IF okAgree /\ full /\ m.payload # "nil" THEN
                 LET so == SignFrom(m, 1, a)
                     stop == IF so.stop = 0 THEN N + 1 ELSE so.stop
                     bad == \E i \in 1..N :
                              IF i < stop THEN m2.slots[i].sig # so.msg.slots[i].sig
                              ELSE IF i = stop THEN m2.slots[i].sig # m.slots[i].sig
                              ELSE m2.slots[i].sig \notin {m.slots[i].sig, WouldBe(m, i, a)}
                 IN IF bad THEN {IF r.res = "ok" THEN "C11:signing-did-not-fill-the-slots-positionally" ELSE "C20:slots-not-as-required-after-a-failing-signer"} ELSE {}
               ELSE {})
         \cup (IF m2.bprot # m.bprot \/ m2.payload # m.payload THEN {"C18:sign-modified-the-body"} ELSE {})
    [] a.op = "marshal" ->
         (IF ~okAgree THEN {IF r.res = "ok" THEN "C08:fully-signed-message-not-serialisable" ELSE "C20:message-with-an-empty-slot-serialised"} ELSE {})
         \cup (IF okAgree /\ r.res = "ok" /\ w2 # r.wire THEN {"C09:serialisation-does-not-carry-the-current-content"} ELSE {})
         \cup (IF NormMsg(m2) # NormMsg(m) THEN {"C18:marshal-modified-the-message"} ELSE {})
    [] a.op = "unmarshal" ->
         (IF ~okAgree THEN {IF r.res = "ok" THEN "C07:conforming-message-rejected" ELSE "C05:malformed-message-accepted"} ELSE {})
         \cup (IF okAgree /\ r.res = "ok" /\ NormMsg(m2) # NormMsg(r.msg) THEN {"C19:decoded-value-is-not-a-function-of-the-bytes"} ELSE {})
         \cup (IF res # "ok" /\ NormMsg(m2) # NormMsg(m) THEN {"C19:failed-decode-modified-the-destination"} ELSE {})
    [] OTHER -> IF <<NormMsg(m2), w2>> # <<NormMsg(r.msg), r.wire>> THEN {"infra-edit-not-as-modelled"} ELSE {}

RECURSIVE Walk(_, _, _, _, _, _)
Walk(e, k, m, w, assoc, lastOut) ==
  IF k > Len(e.acts) THEN {} ELSE
  LET a == e.acts[k]
      o == e.obs[2 * k]
      post == e.obs[2 * k + 1].post
      signs == SelectSeq(o.calls, LAMBDA x : x.call = "Sign" /\ x.reterr = "ok" /\ x.ret # <<>>)
      \* a fresh signature's term: the term of a slot this key serves in this call whose structure is the recorded input
      TermFor(c) == LET cand == {i \in 1..N : i <= Len(a.ks) /\ a.ks[i] = c.who /\ c.content = Expected(post, i, a.ext)} IN
                    IF cand = {} THEN Junk ELSE WouldBe(m, CHOOSE i \in cand : TRUE, a)
      assoc2 == IF a.op = "sign" /\ Len(a.ks) = N THEN assoc \cup {<<signs[c].ret, TermFor(signs[c])>> : c \in 1..Len(signs)} ELSE assoc
      m2 == AbsMsg(post, assoc2)
      out2 == IF a.op = "marshal" /\ o.res = "ok" /\ ~o.outnil THEN o.out ELSE lastOut
      w2 == AbsWire(out2, assoc2)
  IN (IF o.res = "panic" THEN {"C06:panic"} ELSE Judge(a, m, w, o, m2, w2, post))
     \cup Walk(e, k + 1, m2, w2, assoc2, out2)

Fails(e) == Walk(e, 1, AbsMsg(e.obs[1].post, {}), NoWire, {}, <<>>)
TInit == l = 1 /\ KitInit /\ Init
TNext == /\ l <= Len(Tr) /\ l' = l + 1
         /\ UNCHANGED vars
         /\ Note(l, Fails(Tr[l]))
TSpec == TInit /\ [][TNext]_<<l, vars>>
Accepted == KitDone(Len(Tr))
=============================================================================
