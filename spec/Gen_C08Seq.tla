------------------------------ MODULE Gen_C08Seq ------------------------------
(* C08, sequences: encoding must depend on the CURRENT in-memory value only.  A  *)
(* message is serialised, the caller edits a header map (without touching any     *)
(* retained raw bytes field), and serialises again: the second output must be the  *)
(* canonical image of the edited value.  Constructed and decoded messages.         *)
EXTENDS CoseSystem, Json
AlgV == [t |-> "alg", neg |-> TRUE, a |-> <<6>>]
P1 == <<<<GoInt("int64", 1), AlgV>>>>
U(k) == <<<<GoInt("int64", 4), GoBytes(<<k>>)>>>>
Pay == <<1, 2>>
SigB == <<170, 187>>
M(kind, k, alg) ==
  CASE kind \in {"sign1", "sign1u"} -> [P |-> (IF alg THEN P1 ELSE <<>>), U |-> U(k), payload |-> Pay, sig |-> SigB]
    [] kind = "sign" -> [P |-> (IF alg THEN P1 ELSE <<>>), U |-> U(k), payload |-> Pay, sigs |-> <<[P |-> P1, U |-> <<>>, sig |-> SigB]>>]
    [] kind \in {"sig", "csig"} -> [P |-> (IF alg THEN P1 ELSE <<>>), U |-> U(k), sig |-> SigB]
Prog(kind, alg, edit) ==
  << [op |-> "new", obj |-> "m", kind |-> kind, m |-> M(kind, 1, alg)],
     [op |-> "marshal", obj |-> "m", buf |-> "b1"] >>
  \o (IF edit = "kid" THEN <<[op |-> "setkid", obj |-> "m", kid |-> <<2>>]>> ELSE <<[op |-> "setalg", obj |-> "m", absent |-> alg, alg |-> 0 - 7]>>)
  \o << [op |-> "marshal", obj |-> "m", buf |-> "b2"] >>
Expected(kind, alg, edit) == ImageOf(kind, IF edit = "kid" THEN M(kind, 2, alg) ELSE M(kind, 1, ~alg))
VARIABLE st
Init == st = [phase |-> 0]
Next == st.phase = 0 /\ \E kind \in {"sign1", "sign1u", "sign", "sig", "csig"} : \E alg \in BOOLEAN : \E edit \in {"kid", "alg"} :
          st' = [phase |-> 1, kind |-> kind, alg |-> alg, edit |-> edit]
Spec == Init /\ [][Next]_st
Emit == st.phase # 1 \/ PrintT(<<"CASE", ToJson([kind |-> st.kind, first |-> ImageOf(st.kind, M(st.kind, 1, st.alg)), second |-> Expected(st.kind, st.alg, st.edit),
                                                  steps |-> Prog(st.kind, st.alg, st.edit)])>>)
=============================================================================
