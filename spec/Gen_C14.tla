------------------------------- MODULE Gen_C14 -------------------------------
(***************************************************************************)
(* C14: Go key -> COSE_Key -> bytes -> COSE_Key -> Go key.                 *)
(* (1) The conversion pipeline as a small state machine over coordinates   *)
(* represented as byte sequences: Go's big.Int drops leading zero bytes    *)
(* (Trim), the encoder must restore x and y to the field size (Pad), the   *)
(* decoder reads bytes back into integers.  TLC checks RoundTrip and       *)
(* FullWidth for EVERY coordinate value of a toy field of ToySize bytes.   *)
(* (2) Generation: every fixture key (each curve x leading-zero class of   *)
(* x, y, d) x optional parameters, emitted for replay with real keys.      *)
(***************************************************************************)
EXTENDS CoseKey, Json, FixtureData
CONSTANTS ToySize       \* field size in bytes of the exhaustively explored toy field

\* ---- (1) the design --------------------------------------------------------------------------------------
Trim(v) == StripZeros(v)                               \* big.Int.Bytes()
PadTo(v, n) == IF Len(v) >= n THEN v ELSE [i \in 1..(n - Len(v)) |-> 0] \o v
FullWidthValues(n) == [1..n -> 0..255]                 \* every n-byte coordinate, as functions = sequences
EncodeCoord(goBytes, n) == PadTo(goBytes, n)           \* what Key.MarshalCBOR must emit for x, y
DecodeCoord(wire) == Trim(wire)                        \* what the Go key holds after SetBytes

VARIABLE st
vars == st
Init == st = [phase |-> "start"]
\* toy exploration: a coordinate value, through the whole pipeline
PickCoord == st.phase = "start" /\ \E v \in FullWidthValues(ToySize) :
               st' = [phase |-> "go", v |-> [i \in 1..ToySize |-> v[i]]]
ToCoseKey == st.phase = "go" /\ st' = [phase |-> "key", v |-> st.v, held |-> Trim(st.v)]                 \* NewKeyFromPrivate stores big.Int.Bytes()
Marshal   == st.phase = "key" /\ st' = [phase |-> "wire", v |-> st.v, wire |-> EncodeCoord(st.held, ToySize)]
Unmarshal == st.phase = "wire" /\ st' = [phase |-> "back", v |-> st.v, wire |-> st.wire, got |-> DecodeCoord(st.wire)]
\* generation of replay cases
PickFixture == st.phase = "start" /\ \E f \in FixtureKeys : \E kid \in BOOLEAN : \E ops \in {"-", "both"} : \E iv \in BOOLEAN : \E ex \in BOOLEAN : \E dirty \in BOOLEAN :
                 st' = [phase |-> "case", name |-> f.name, curve |-> f.curve, extras |-> [kid |-> kid, ops |-> ops, baseiv |-> iv, extra |-> ex, dirty |-> dirty]]
Next == PickCoord \/ ToCoseKey \/ Marshal \/ Unmarshal \/ PickFixture
Spec == Init /\ [][Next]_vars

FullWidth == st.phase \in {"wire", "back"} => Len(st.wire) = ToySize
RoundTrip == st.phase = "back" => (st.got = Trim(st.v) /\ PadTo(st.got, ToySize) = st.v)
Emit == st.phase # "case" \/ PrintT(<<"CASE", ToJson([name |-> st.name, curve |-> st.curve, extras |-> st.extras, src |-> "tlc"])>>)
=============================================================================
