------------------------------ MODULE Trace_C16 ------------------------------
(* Judge for C16: produced ECDSA signatures are exactly r || s at the order's    *)
(* byte length on both signing paths; the verifier accepts that form only.       *)
EXTENDS CoseCrypto, Json, TraceKit
Tr == ndJsonDeserialize("tr.ndjson")
VARIABLE l

RenderFails(e) ==
  LET n == OrderBytes(e.curve)
      inRange == ~e.rneg /\ e.r # <<>> /\ e.s # <<>> /\ Len(e.r) <= n /\ Len(e.s) <= n IN
  (IF e.res = "panic" THEN {"panic"} ELSE {})
  \cup (IF e.res = "ok" /\ Len(e.out) # 2 * n THEN {"produced-signature-not-twice-the-order-length"} ELSE {})
  \cup (IF inRange /\ e.res # "ok" THEN {"valid-r-s-not-rendered"} ELSE {})
  \cup (IF inRange /\ e.res = "ok" /\ e.out # RenderRS(e.r, e.s, n) THEN {"rendering-is-not-fixed-width-r-then-s"} ELSE {})
  \cup (IF ((e.rneg /\ e.r # <<>>) \/ Len(e.r) > n) /\ e.res = "ok" THEN {"out-of-range-r-rendered"} ELSE {})
  \cup (IF e.res # "ok" /\ e.out # <<>> THEN {"bytes-returned-together-with-an-error"} ELSE {})
NativeFails(e) ==
  LET n == OrderBytes(e.curve) IN
  (IF e.res # "ok" THEN {"signing-fails-" \o e.res} ELSE
   (IF Len(e.out) # 2 * n THEN {"produced-signature-not-twice-the-order-length"} ELSE {})
   \cup (IF ~e.stdv THEN {"produced-signature-not-valid-as-fixed-width-r-s"} ELSE {})
   \cup (IF e.ver # "ok" THEN {"own-verifier-rejects-produced-signature"} ELSE {}))
AcceptFails(e) ==
  LET n == OrderBytes(e.curve) exact == RenderRS(e.r, e.s, n) IN
  (IF e.res = "panic" THEN {"panic"} ELSE {})
  \cup (IF ~e.exactvalid THEN {"infra-generated-signature-invalid"} ELSE {})
  \cup (IF e.sig = exact /\ e.res # "ok" THEN {"exact-form-rejected"} ELSE {})
  \cup (IF e.sig # exact /\ e.res = "ok" THEN {"other-rendering-accepted"} ELSE {})
  \cup (IF e.sig # exact /\ e.res \notin {"ok", "ErrVerification"} THEN {"other-rendering-not-reported-as-verification-error"} ELSE {})
  \cup (IF e.sig = exact /\ e.resd \notin {"ok", "n/a"} THEN {"exact-form-rejected-by-VerifyDigest"} ELSE {})
  \cup (IF e.sig # exact /\ e.resd = "ok" THEN {"other-rendering-accepted-by-VerifyDigest"} ELSE {})
Fails(e) == CASE e.op = "ecdsa-render" -> RenderFails(e) [] e.op = "ecdsa-native" -> NativeFails(e) [] e.op = "ecdsa-accept" -> AcceptFails(e)
TInit == l = 1 /\ KitInit
TNext == /\ l <= Len(Tr) /\ l' = l + 1
         /\ Note(l, Fails(Tr[l]))
TSpec == TInit /\ [][TNext]_l
Accepted == KitDone(Len(Tr))
=============================================================================
