------------------------------ MODULE CborData ------------------------------
(***************************************************************************)
(* Byte-level CBOR (RFC 8949) data model used by every other module:       *)
(* items as records, an encoder with per-item head-width choices, a        *)
(* recursive-descent parser over byte sequences, deterministic-encoding    *)
(* predicates (RFC 8949 section 4.2.1), canonicalisation, tree paths and   *)
(* structural mutation operators.                                          *)
(*                                                                         *)
(* TLC integers are 32 bit, so CBOR arguments are carried as minimal       *)
(* big-endian byte sequences ("args"); text strings are sequences of       *)
(* UTF-8 code units.  Written from RFC 8949, not from any implementation.  *)
(***************************************************************************)
EXTENDS Integers, Sequences, FiniteSets, TLC

Byte == 0..255

\* ---------------------------------------------------------------------------
\* Arguments
\* ---------------------------------------------------------------------------
RECURSIVE StripZeros(_)
StripZeros(bs) == IF bs = <<>> THEN <<>> ELSE IF bs[1] = 0 THEN StripZeros(Tail(bs)) ELSE bs

NatToArg(n) ==
  IF n = 0 THEN <<>>
  ELSE IF n < 256 THEN <<n>>
  ELSE IF n < 65536 THEN <<n \div 256, n % 256>>
  ELSE IF n < 16777216 THEN <<n \div 65536, (n \div 256) % 256, n % 256>>
  ELSE <<n \div 16777216, (n \div 65536) % 256, (n \div 256) % 256, n % 256>>

\* only for small args (<= 3 bytes), -1 otherwise
ArgToNat(ab) ==
  CASE Len(ab) = 0 -> 0
    [] Len(ab) = 1 -> ab[1]
    [] Len(ab) = 2 -> ab[1] * 256 + ab[2]
    [] Len(ab) = 3 -> ab[1] * 65536 + ab[2] * 256 + ab[3]
    [] OTHER -> -1

ArgLt24(ab) == ab = <<>> \/ (Len(ab) = 1 /\ ab[1] < 24)
MinW(ab) == IF ArgLt24(ab) THEN 0 ELSE IF Len(ab) = 1 THEN 1 ELSE IF Len(ab) = 2 THEN 2
            ELSE IF Len(ab) <= 4 THEN 4 ELSE 8
Pad(ab, w) == [i \in 1..(w - Len(ab)) |-> 0] \o ab

\* lexicographic order on byte sequences (shorter prefix first)
RECURSIVE LexLt(_, _)
LexLt(a, b) ==
  IF b = <<>> THEN FALSE
  ELSE IF a = <<>> THEN TRUE
  ELSE IF a[1] < b[1] THEN TRUE
  ELSE IF a[1] > b[1] THEN FALSE
  ELSE LexLt(Tail(a), Tail(b))

\* unsigned comparison of two minimal args
ArgLt(a, b) == Len(a) < Len(b) \/ (Len(a) = Len(b) /\ LexLt(a, b))
ArgLe(a, b) == a = b \/ ArgLt(a, b)

\* head bytes for major type mt, argument ab, width w (0 = shortest)
Hd(mt, ab, w) ==
  LET ww == IF w = 0 THEN MinW(ab) ELSE w IN
  IF ww = 0 THEN <<mt * 32 + (IF ab = <<>> THEN 0 ELSE ab[1])>>
  ELSE <<mt * 32 + (CASE ww = 1 -> 24 [] ww = 2 -> 25 [] ww = 4 -> 26 [] ww = 8 -> 27)>> \o Pad(ab, ww)

\* ---------------------------------------------------------------------------
\* Items
\* ---------------------------------------------------------------------------
UInt(n)    == [k |-> "uint", a |-> NatToArg(n), w |-> 0]
NInt(n)    == [k |-> "nint", a |-> NatToArg(n), w |-> 0]      \* value -1-n
UIntA(a)   == [k |-> "uint", a |-> a, w |-> 0]
NIntA(a)   == [k |-> "nint", a |-> a, w |-> 0]
Bstr(b)    == [k |-> "bstr", b |-> b, w |-> 0, indef |-> FALSE]
Tstr(b)    == [k |-> "tstr", b |-> b, w |-> 0, indef |-> FALSE]
Arr(xs)    == [k |-> "arr", xs |-> xs, w |-> 0, indef |-> FALSE]
Map(ps)    == [k |-> "map", ps |-> ps, w |-> 0, indef |-> FALSE]   \* ps: seq of <<key, value>>
Tag(n, x)  == [k |-> "tag", a |-> NatToArg(n), w |-> 0, x |-> x]
Simple(v)  == [k |-> "simple", v |-> v]                           \* 20 false 21 true 22 null 23 undefined
Float16(hi, lo) == [k |-> "float", bits |-> <<hi, lo>>]
RawBytes(b) == [k |-> "raw", b |-> b]                             \* arbitrary (possibly malformed) bytes
\* bstr wrapping one CBOR item (protected header), with optional garbage g after it
BstrW(x)   == [k |-> "bstrw", x |-> x, w |-> 0, g |-> <<>>]
Null == Simple(22)
Undef == Simple(23)
True == Simple(21)
False == Simple(20)

RECURSIVE Enc(_)
RECURSIVE EncSeq(_)
RECURSIVE EncPairs(_)
EncSeq(xs) == IF xs = <<>> THEN <<>> ELSE Enc(xs[1]) \o EncSeq(Tail(xs))
EncPairs(ps) == IF ps = <<>> THEN <<>> ELSE Enc(ps[1][1]) \o Enc(ps[1][2]) \o EncPairs(Tail(ps))
Enc(it) ==
  CASE it.k = "uint" -> Hd(0, it.a, it.w)
    [] it.k = "nint" -> Hd(1, it.a, it.w)
    [] it.k = "bstr" -> IF it.indef THEN <<95>> \o Hd(2, NatToArg(Len(it.b)), 0) \o it.b \o <<255>>
                        ELSE Hd(2, NatToArg(Len(it.b)), it.w) \o it.b
    [] it.k = "tstr" -> IF it.indef THEN <<127>> \o Hd(3, NatToArg(Len(it.b)), 0) \o it.b \o <<255>>
                        ELSE Hd(3, NatToArg(Len(it.b)), it.w) \o it.b
    [] it.k = "arr"  -> IF it.indef THEN <<159>> \o EncSeq(it.xs) \o <<255>>
                        ELSE Hd(4, NatToArg(Len(it.xs)), it.w) \o EncSeq(it.xs)
    [] it.k = "map"  -> IF it.indef THEN <<191>> \o EncPairs(it.ps) \o <<255>>
                        ELSE Hd(5, NatToArg(Len(it.ps)), it.w) \o EncPairs(it.ps)
    [] it.k = "tag"  -> Hd(6, it.a, it.w) \o Enc(it.x)
    [] it.k = "simple" -> IF it.v < 24 THEN <<224 + it.v>> ELSE <<248, it.v>>
    [] it.k = "float" -> <<(CASE Len(it.bits) = 2 -> 249 [] Len(it.bits) = 4 -> 250 [] Len(it.bits) = 8 -> 251)>> \o it.bits
    [] it.k = "raw"  -> it.b
    [] it.k = "bstrw" -> LET c == Enc(it.x) \o it.g IN Hd(2, NatToArg(Len(c)), it.w) \o c

\* ---------------------------------------------------------------------------
\* Parser: ParseAt(b, i, d) = [ok, item, next]
\* ---------------------------------------------------------------------------
Bad == [ok |-> FALSE, item |-> <<>>, next |-> 0]
MaxDepth == 40

HeadAt(b, i) ==
  LET ai == b[i] % 32 IN
  IF ai < 24 THEN [ok |-> TRUE, a |-> (IF ai = 0 THEN <<>> ELSE <<ai>>), w |-> 0, next |-> i + 1, ai |-> ai]
  ELSE IF ai = 24 /\ i + 1 <= Len(b) THEN [ok |-> TRUE, a |-> StripZeros(SubSeq(b, i+1, i+1)), w |-> 1, next |-> i + 2, ai |-> ai]
  ELSE IF ai = 25 /\ i + 2 <= Len(b) THEN [ok |-> TRUE, a |-> StripZeros(SubSeq(b, i+1, i+2)), w |-> 2, next |-> i + 3, ai |-> ai]
  ELSE IF ai = 26 /\ i + 4 <= Len(b) THEN [ok |-> TRUE, a |-> StripZeros(SubSeq(b, i+1, i+4)), w |-> 4, next |-> i + 5, ai |-> ai]
  ELSE IF ai = 27 /\ i + 8 <= Len(b) THEN [ok |-> TRUE, a |-> StripZeros(SubSeq(b, i+1, i+8)), w |-> 8, next |-> i + 9, ai |-> ai]
  ELSE IF ai = 31 THEN [ok |-> TRUE, a |-> <<>>, w |-> 0, next |-> i + 1, ai |-> ai]
  ELSE [ok |-> FALSE, a |-> <<>>, w |-> 0, next |-> 0, ai |-> ai]

RECURSIVE ParseAt(_, _, _)
RECURSIVE ParseN(_, _, _, _, _)
RECURSIVE ParseUntilBreak(_, _, _, _)
RECURSIVE ParseChunks(_, _, _, _)

ParseN(b, i, n, acc, d) ==
  IF n = 0 THEN [ok |-> TRUE, item |-> acc, next |-> i]
  ELSE LET r == ParseAt(b, i, d) IN
       IF ~r.ok THEN Bad ELSE ParseN(b, r.next, n - 1, Append(acc, r.item), d)

ParseUntilBreak(b, i, acc, d) ==
  IF i > Len(b) THEN Bad
  ELSE IF b[i] = 255 THEN [ok |-> TRUE, item |-> acc, next |-> i + 1]
  ELSE LET r == ParseAt(b, i, d) IN
       IF ~r.ok THEN Bad ELSE ParseUntilBreak(b, r.next, Append(acc, r.item), d)

\* chunks of an indefinite-length string: definite strings of the same major type
ParseChunks(b, i, mt, acc) ==
  IF i > Len(b) THEN Bad
  ELSE IF b[i] = 255 THEN [ok |-> TRUE, item |-> acc, next |-> i + 1]
  ELSE IF b[i] \div 32 # mt \/ b[i] % 32 = 31 THEN Bad
  ELSE LET h == HeadAt(b, i) n == ArgToNat(h.a) IN
       IF ~h.ok \/ n < 0 \/ h.next + n - 1 > Len(b) THEN Bad
       ELSE ParseChunks(b, h.next + n, mt, acc \o SubSeq(b, h.next, h.next + n - 1))

Pairs(xs) == [j \in 1..(Len(xs) \div 2) |-> <<xs[2*j-1], xs[2*j]>>]

ParseAt(b, i, d) ==
  IF i > Len(b) \/ d > MaxDepth THEN Bad ELSE
  LET mt == b[i] \div 32
      h == HeadAt(b, i) IN
  IF ~h.ok THEN Bad ELSE
  CASE mt \in {0, 1} ->
         IF h.ai = 31 THEN Bad
         ELSE [ok |-> TRUE, item |-> [k |-> IF mt = 0 THEN "uint" ELSE "nint", a |-> h.a, w |-> h.w], next |-> h.next]
    [] mt \in {2, 3} ->
         IF h.ai = 31 THEN
            LET r == ParseChunks(b, h.next, mt, <<>>) IN
            IF ~r.ok THEN Bad
            ELSE [ok |-> TRUE, item |-> [k |-> IF mt = 2 THEN "bstr" ELSE "tstr", b |-> r.item, w |-> 0, indef |-> TRUE], next |-> r.next]
         ELSE LET n == ArgToNat(h.a) IN
            IF n < 0 \/ h.next + n - 1 > Len(b) THEN Bad
            ELSE [ok |-> TRUE, item |-> [k |-> IF mt = 2 THEN "bstr" ELSE "tstr", b |-> SubSeq(b, h.next, h.next + n - 1), w |-> h.w, indef |-> FALSE], next |-> h.next + n]
    [] mt = 4 ->
         IF h.ai = 31 THEN
            LET r == ParseUntilBreak(b, h.next, <<>>, d + 1) IN
            IF ~r.ok THEN Bad ELSE [ok |-> TRUE, item |-> [k |-> "arr", xs |-> r.item, w |-> 0, indef |-> TRUE], next |-> r.next]
         ELSE LET n == ArgToNat(h.a) r == IF n < 0 \/ n > Len(b) THEN Bad ELSE ParseN(b, h.next, n, <<>>, d + 1) IN
            IF ~r.ok THEN Bad ELSE [ok |-> TRUE, item |-> [k |-> "arr", xs |-> r.item, w |-> h.w, indef |-> FALSE], next |-> r.next]
    [] mt = 5 ->
         IF h.ai = 31 THEN
            LET r == ParseUntilBreak(b, h.next, <<>>, d + 1) IN
            IF ~r.ok \/ Len(r.item) % 2 # 0 THEN Bad
            ELSE [ok |-> TRUE, item |-> [k |-> "map", ps |-> Pairs(r.item), w |-> 0, indef |-> TRUE], next |-> r.next]
         ELSE LET n == ArgToNat(h.a) r == IF n < 0 \/ n > Len(b) THEN Bad ELSE ParseN(b, h.next, 2 * n, <<>>, d + 1) IN
            IF ~r.ok THEN Bad ELSE [ok |-> TRUE, item |-> [k |-> "map", ps |-> Pairs(r.item), w |-> h.w, indef |-> FALSE], next |-> r.next]
    [] mt = 6 ->
         IF h.ai = 31 THEN Bad
         ELSE LET r == ParseAt(b, h.next, d + 1) IN
            IF ~r.ok THEN Bad ELSE [ok |-> TRUE, item |-> [k |-> "tag", a |-> h.a, w |-> h.w, x |-> r.item], next |-> r.next]
    [] mt = 7 ->
         IF h.ai < 24 THEN [ok |-> TRUE, item |-> [k |-> "simple", v |-> h.ai], next |-> h.next]
         ELSE IF h.ai = 24 THEN (IF b[i+1] < 32 THEN Bad ELSE [ok |-> TRUE, item |-> [k |-> "simple", v |-> b[i+1]], next |-> h.next])
         ELSE IF h.ai \in {25, 26, 27} THEN [ok |-> TRUE, item |-> [k |-> "float", bits |-> SubSeq(b, i + 1, h.next - 1)], next |-> h.next]
         ELSE Bad   \* stray break

\* exactly one item, nothing after it
ParseAll(b) == LET r == IF b = <<>> THEN Bad ELSE ParseAt(b, 1, 0) IN
               IF r.ok /\ r.next = Len(b) + 1 THEN r ELSE Bad

\* ---------------------------------------------------------------------------
\* Tree predicates on items
\* ---------------------------------------------------------------------------
Children(it) ==
  CASE it.k = "arr" -> it.xs
    [] it.k = "map" -> [j \in 1..(2 * Len(it.ps)) |-> it.ps[(j + 1) \div 2][IF j % 2 = 1 THEN 1 ELSE 2]]
    [] it.k = "tag" -> <<it.x>>
    [] OTHER -> <<>>

RECURSIVE AllNodes(_, _)
\* P(node) holds for every node of the tree
AllNodes(P(_), it) == P(it) /\ \A j \in 1..Len(Children(it)) : AllNodes(P, Children(it)[j])

IsContainerOrString(it) == it.k \in {"bstr", "tstr", "arr", "map"}
IsIndef(it) == IsContainerOrString(it) /\ it.indef
NotIndef(it) == ~IsIndef(it)
NotTag(it) == it.k # "tag"

\* key identity by value (width of the head is irrelevant)
KeyId(it) ==
  CASE it.k = "uint" -> <<"u", it.a>>
    [] it.k = "nint" -> <<"n", it.a>>
    [] it.k = "tstr" -> <<"t", it.b>>
    [] it.k = "bstr" -> <<"b", it.b>>
    [] OTHER -> <<"o", Enc(it)>>
NoDupHere(it) == it.k # "map" \/ \A i, j \in 1..Len(it.ps) : i # j => KeyId(it.ps[i][1]) # KeyId(it.ps[j][1])

\* argument of the item's own head
HeadArg(it) ==
  CASE it.k \in {"uint", "nint", "tag"} -> it.a
    [] it.k \in {"bstr", "tstr"} -> NatToArg(Len(it.b))
    [] it.k = "arr" -> NatToArg(Len(it.xs))
    [] it.k = "map" -> NatToArg(Len(it.ps))
    [] OTHER -> <<>>
HasHead(it) == it.k \in {"uint", "nint", "tag", "bstr", "tstr", "arr", "map"}
ShortestHere(it) == ~HasHead(it) \/ IsIndef(it) \/ it.w = 0 \/ it.w = MinW(HeadArg(it))

\* RFC 8949 4.2.1: keys sorted in bytewise lexicographic order of their deterministic encodings
SortedHere(it) == it.k # "map" \/ \A i \in 1..(Len(it.ps) - 1) : LexLt(Enc(it.ps[i][1]), Enc(it.ps[i+1][1]))

\* deterministic encoding of a parsed item: shortest heads, definite lengths, sorted unique keys
IsDetItem(it) == AllNodes(ShortestHere, it) /\ AllNodes(NotIndef, it) /\ AllNodes(SortedHere, it) /\ AllNodes(NoDupHere, it)
IsDetBytes(b) == LET r == ParseAll(b) IN r.ok /\ IsDetItem(r.item)

\* canonical form of an item: shortest definite heads, keys sorted
RECURSIVE InsertPair(_, _)
InsertPair(sorted, p) ==
  IF sorted = <<>> THEN <<p>>
  ELSE IF LexLt(Enc(p[1]), Enc(sorted[1][1])) THEN <<p>> \o sorted
  ELSE <<sorted[1]>> \o InsertPair(Tail(sorted), p)
RECURSIVE SortPairs(_)
SortPairs(ps) == IF ps = <<>> THEN <<>> ELSE InsertPair(SortPairs(Tail(ps)), ps[1])

RECURSIVE Canon(_)
Canon(it) ==
  CASE it.k \in {"uint", "nint"} -> [it EXCEPT !.w = 0]
    [] it.k \in {"bstr", "tstr"} -> [it EXCEPT !.w = 0, !.indef = FALSE]
    [] it.k = "arr" -> [k |-> "arr", xs |-> [j \in 1..Len(it.xs) |-> Canon(it.xs[j])], w |-> 0, indef |-> FALSE]
    [] it.k = "map" -> [k |-> "map", ps |-> SortPairs([j \in 1..Len(it.ps) |-> <<Canon(it.ps[j][1]), Canon(it.ps[j][2])>>]), w |-> 0, indef |-> FALSE]
    [] it.k = "tag" -> [it EXCEPT !.w = 0, !.x = Canon(it.x)]
    [] OTHER -> it

\* the same item with every head width forgotten (comparison "up to head widths")
RECURSIVE NormW(_)
NormW(it) ==
  CASE it.k \in {"uint", "nint", "bstr", "tstr"} -> [it EXCEPT !.w = 0]
    [] it.k = "arr" -> [it EXCEPT !.w = 0, !.xs = [j \in 1..Len(it.xs) |-> NormW(it.xs[j])]]
    [] it.k = "map" -> [it EXCEPT !.w = 0, !.ps = [j \in 1..Len(it.ps) |-> <<NormW(it.ps[j][1]), NormW(it.ps[j][2])>>]]
    [] it.k = "tag" -> [it EXCEPT !.w = 0, !.x = NormW(it.x)]
    [] OTHER -> it

\* ---------------------------------------------------------------------------
\* Model trees: paths and structural mutations (paths are sequences of child indexes)
\* ---------------------------------------------------------------------------
Kids(it) ==
  CASE it.k = "bstrw" -> <<it.x>>
    [] OTHER -> Children(it)

RECURSIVE Paths(_)
Paths(it) == {<<>>} \cup UNION { {<<j>> \o p : p \in Paths(Kids(it)[j])} : j \in 1..Len(Kids(it)) }

RECURSIVE Get(_, _)
Get(it, p) == IF p = <<>> THEN it ELSE Get(Kids(it)[p[1]], Tail(p))

SetKid(it, j, new) ==
  CASE it.k = "bstrw" -> [it EXCEPT !.x = new]
    [] it.k = "arr" -> [it EXCEPT !.xs[j] = new]
    [] it.k = "map" -> [it EXCEPT !.ps[(j + 1) \div 2][IF j % 2 = 1 THEN 1 ELSE 2] = new]
    [] it.k = "tag" -> [it EXCEPT !.x = new]

RECURSIVE Put(_, _, _)
Put(it, p, new) == IF p = <<>> THEN new ELSE SetKid(it, p[1], Put(Kids(it)[p[1]], Tail(p), new))

Wider(w) == CASE w = 0 -> 1 [] w = 1 -> 2 [] w = 2 -> 4 [] w = 4 -> 8 [] OTHER -> 8
Widths == {0, 1, 2, 4, 8}
\* widths that can legally carry argument a
LegalWidths(a) == {w \in Widths : w = 0 \/ w >= MinW(a)}

Reverse(s) == [i \in 1..Len(s) |-> s[Len(s) + 1 - i]]

=============================================================================
