------------------------------ MODULE TraceKit ------------------------------
(* Shared plumbing of the trace-validation (judge) modules: every event is     *)
(* consumed; an event the specification does not allow is reported with the    *)
(* set of violated requirements; the number of reports is counted in a TLC     *)
(* register so that the orchestrator can check that it parsed all of them.     *)
EXTENDS TLC, Naturals, Sequences
\* NOTE: Note(l, f) must be the LAST conjunct of the next-state action (all primed variables already determined),
\* otherwise TLC explores both disjuncts as alternative successors.
KitInit == TLCSet(1, 0)
Note(l, f) == f = {} \/ (PrintT(<<"REJECT", l, f>>) /\ TLCSet(1, TLCGet(1) + 1))
KitDone(n) == PrintT(<<"NREJ", TLCGet(1)>>) /\ TLCGet("stats").diameter - 1 = n
=============================================================================
