------------------------------- MODULE Trace_Cs -------------------------------
(***************************************************************************)
(* Trace validation of recorded programs against CsModel.  Abstraction:    *)
(* the projected parent / countersignature object / abbreviated bytes /    *)
(* serialised parent are mapped to the model's state; a countersignature's *)
(* term is learnt from the signer call that produced its bytes, and that   *)
(* call's input is compared, byte for byte, with the RFC 9338              *)
(* Countersign_structure the specification builds from the observed        *)
(* objects (so that equal terms mean equal bytes).  Every observed         *)
(* transition must be the one Step allows from the observed pre-state.     *)
(***************************************************************************)
EXTENDS CsModel, CoseSystem, Json, TraceKit
Tr == ndJsonDeserialize("tr.ndjson")
VARIABLE l

AlgName(h) == IF h.kind = "absent" THEN "none" ELSE IF h.kind = "int" /\ h.neg /\ h.a = <<6>> THEN "A" ELSE IF h.kind = "int" /\ h.neg /\ h.a = <<7>> THEN "B" ELSE "other"
WireAlgName(protItem) ==
  LET pm == ProtMap(protItem) IN
  IF ~pm.ok THEN "other" ELSE IF ~HasLabel(pm.ps, LblAlg) THEN "none"
  ELSE LET v == ValueOf(pm.ps, LblAlg) IN IF v.k = "nint" /\ v.a = <<6>> THEN "A" ELSE IF v.k = "nint" /\ v.a = <<7>> THEN "B" ELSE "other"
ProtName(protItem) == LET pm == ProtMap(protItem) IN IF ~pm.ok THEN "other" ELSE IF HasLabel(pm.ps, LblContentType) THEN "y" ELSE "x"
KidOfWireMap(u) == IF u.k = "map" /\ HasLabel(u.ps, LblKid) /\ ValueOf(u.ps, LblKid).k = "bstr" /\ Len(ValueOf(u.ps, LblKid).b) = 1 THEN ValueOf(u.ps, LblKid).b[1] ELSE 99
PayloadName(p) == IF p = NilPayload THEN "nil" ELSE IF p = <<1>> THEN "p1" ELSE IF p = <<2>> THEN "p2" ELSE "other"
PSigName(s) == IF s = <<>> THEN "none" ELSE IF s = <<81>> THEN "s1" ELSE IF s = <<82>> THEN "s2" ELSE "other"
TermOf(bytes, assoc) == IF bytes = <<>> THEN NoCs ELSE IF \E p \in assoc : p[1] = bytes THEN (CHOOSE p \in assoc : p[1] = bytes)[2] ELSE JunkCs

AbsPar(post, assoc) ==
  LET ukid == IF HasGoLabel(post.U, LblKid) /\ GoValueOf(post.U, LblKid).t = "bytes" /\ Len(GoValueOf(post.U, LblKid).b) = 1 THEN GoValueOf(post.U, LblKid).b[1] ELSE 99
      has0 == HasGoLabel(post.U, LblCounterSig0V2) /\ GoValueOf(post.U, LblCounterSig0V2).t = "bytes"
  IN [prot |-> ProtName(LayerProtItem(post)), payload |-> PayloadName(post.payload), sig |-> PSigName(post.sig), ukid |-> ukid,
      att |-> HasGoLabel(post.U, LblCounterSigV2) /\ GoValueOf(post.U, LblCounterSigV2).t = "csig",
      att0 |-> IF has0 THEN Abbr(TRUE, TermOf(GoValueOf(post.U, LblCounterSig0V2).b, assoc)) ELSE Abbr(FALSE, NoCs)]
AbsCs(post, assoc) ==
  LET rp == IF post.rawP = <<>> THEN [ok |-> FALSE] ELSE ParseAll(post.rawP) IN
  [palg |-> AlgName(AlgOfBucket(post.P)), hasRaw |-> post.rawP # <<>>, ralg |-> (IF rp.ok THEN WireAlgName(rp.item) ELSE "none"), sig |-> TermOf(post.sig, assoc)]
NormCs(c) == [c EXCEPT !.ralg = IF c.hasRaw THEN c.ralg ELSE "none"]
AbsWire(b, assoc) ==
  LET r == Body("sign1", b) IN
  IF b = <<>> \/ ~r.ok \/ Len(r.item.xs) # 4 \/ r.item.xs[2].k # "map" THEN NoWire
  ELSE LET it == r.item
           u == it.xs[2]
           v == IF HasLabel(u.ps, LblCounterSigV2) THEN ValueOf(u.ps, LblCounterSigV2) ELSE Null
           v0 == IF HasLabel(u.ps, LblCounterSig0V2) THEN ValueOf(u.ps, LblCounterSig0V2) ELSE Null
       IN CWire(ProtName(it.xs[1]),
                IF it.xs[3] = Null THEN "nil" ELSE IF it.xs[3].k = "bstr" THEN PayloadName(it.xs[3].b) ELSE "other",
                IF it.xs[4].k = "bstr" THEN PSigName(it.xs[4].b) ELSE "other",
                KidOfWireMap(u),
                IF v.k = "arr" /\ Len(v.xs) = 3 /\ v.xs[3].k = "bstr" THEN [present |-> TRUE, palg |-> WireAlgName(v.xs[1]), sig |-> TermOf(v.xs[3].b, assoc)] ELSE NoAtt,
                IF v0.k = "bstr" THEN Abbr(TRUE, TermOf(v0.b, assoc)) ELSE Abbr(FALSE, NoCs))

ExtBytes(e) == IF e = "none" THEN <<>> ELSE <<1, 2>>
\* the Countersign_structure over the observed objects
Expected(abbr, ppost, cpost, ext) ==
  CountersignStructure("sign1", abbr, LayerProtItem(ppost), IF abbr THEN Bstr(<<>>) ELSE LayerProtItem(cpost), ExtBytes(ext),
                       IF ppost.payload = NilPayload THEN <<>> ELSE ppost.payload, ppost.sig)

\* what one observed action may have violated; (p, c, z, w): observed state before, (p2, c2, z2, w2): after
Judge(a, p, c, z, w, o, p2, c2, z2, w2, ppost, cpost) ==
  LET r == Step(p, c, z, w, a)
      res == o.res
      okAgree == (res = "ok") = (r.res = "ok")
      algErr == r.res \in {"ErrAlgorithmMismatch", "ErrAlgorithmNotFound"}
      keyCalls == SelectSeq(o.calls, LAMBDA x : x.call \in {"Sign", "Verify"})
      abbr == a.op \in {"countersign0", "verifycs0"}
      structOK == \A i \in 1..Len(keyCalls) : keyCalls[i].content = Expected(abbr, ppost, cpost, a.ext)
      untouched == p2 = p /\ NormCs(c2) = NormCs(c) /\ z2 = z
  IN
  CASE a.op \in {"verifycs", "verifycs0"} ->
         (IF ~okAgree THEN {IF algErr THEN "C04:countersignature-verified-under-another-or-no-algorithm"
                            ELSE IF r.res = "ok" THEN "C10:valid-countersignature-rejected" ELSE "C10:countersignature-accepted-although-not-over-these-fields-key-or-form"} ELSE {})
         \cup (IF ~okAgree /\ r.res # "ok" /\ ~algErr THEN {"C03:countersignature-verifies-although-not-valid-over-the-current-fields"} ELSE {})
         \cup (IF ~structOK THEN {"C10:verifier-input-is-not-the-countersign-structure", "C03:verifier-input-is-not-the-structure-over-the-current-fields"} ELSE {})
         \cup (IF r.res \in {"err", "ErrMissingPayload"} /\ Len(keyCalls) > 0 THEN {"C10:key-used-on-an-unsigned-or-payload-less-parent"} ELSE {})
         \cup (IF ~untouched THEN {"C18:verifying-a-countersignature-modified-an-object"} ELSE {})
    [] a.op = "countersign" /\ c.sig # NoCs -> (IF p2 # p THEN {"C18:countersigning-modified-the-parent"} ELSE {})
    [] a.op = "countersign" ->
         (IF ~okAgree THEN {IF algErr THEN "C04:countersigned-under-another-or-no-algorithm"
                            ELSE IF r.res = "ErrInjected" THEN "C20:signer-error-not-returned" ELSE "C10:countersigning-verdict-differs"} ELSE {})
         \cup (IF ~structOK THEN {"C10:countersigner-input-is-not-the-countersign-structure"} ELSE {})
         \cup (IF r.res \in {"err", "ErrMissingPayload"} /\ Len(keyCalls) > 0 THEN {"C10:key-used-on-an-unsigned-or-payload-less-parent"} ELSE {})
         \cup (IF okAgree /\ c2.sig # r.cs.sig THEN {IF a.fault # "" \/ r.res # "ok" THEN "C20:countersignature-stored-despite-failure" ELSE "C10:stored-countersignature-is-not-the-signer-output"} ELSE {})
         \cup (IF okAgree /\ r.res = "ok" /\ a.ext = "none" /\ c2.palg # a.alg THEN {"C04:countersigned-without-the-algorithm-in-the-protected-header"} ELSE {})
         \cup (IF p2 # p \/ z2 # z THEN {"C18:countersigning-modified-the-parent"} ELSE {})
    [] a.op = "countersign0" ->
         (IF ~okAgree THEN {IF r.res = "ErrInjected" THEN "C20:signer-error-not-returned" ELSE "C10:countersigning-verdict-differs"} ELSE {})
         \cup (IF ~structOK THEN {"C10:countersigner-input-is-not-the-countersign-structure"} ELSE {})
         \cup (IF r.res \in {"err", "ErrMissingPayload"} /\ Len(keyCalls) > 0 THEN {"C10:key-used-on-an-unsigned-or-payload-less-parent"} ELSE {})
         \cup (IF okAgree /\ z2 # r.cs0 THEN {IF r.res # "ok" \/ a.fault # "" THEN "C20:bytes-returned-despite-failure" ELSE "C10:returned-bytes-are-not-the-signer-output"} ELSE {})
         \cup (IF res # "ok" /\ ~o.outnil THEN {"C20:bytes-returned-despite-failure"} ELSE {})
         \cup (IF p2 # p \/ NormCs(c2) # NormCs(c) THEN {"C18:countersigning-modified-the-parent"} ELSE {})
    [] a.op = "marshal" ->
         (IF ~okAgree THEN {IF r.res = "ok" THEN "C08:signed-parent-with-countersignature-not-serialisable" ELSE "C20:unsigned-parent-or-countersignature-serialised"} ELSE {})
         \cup (IF okAgree /\ r.res = "ok" /\ w2 # r.wire THEN {"C09:serialisation-does-not-carry-the-current-content"} ELSE {})
         \cup (IF ~untouched THEN {"C18:marshal-modified-an-object"} ELSE {})
    [] a.op = "unmarshal" ->
         (IF ~okAgree THEN {IF r.res = "ok" THEN "C07:conforming-message-rejected" ELSE "C05:malformed-message-accepted"} ELSE {})
         \cup (IF okAgree /\ r.res = "ok" /\ (p2 # r.par \/ NormCs(c2) # NormCs(r.cs) \/ z2 # r.cs0) THEN {"C19:decoded-value-is-not-a-function-of-the-bytes"} ELSE {})
         \cup (IF res # "ok" /\ ~untouched THEN {"C19:failed-decode-modified-the-destination"} ELSE {})
    [] OTHER -> \* edits and rewrites are environment steps; the harness must have done what the model says they do
         IF <<p2, NormCs(c2), z2, w2>> # <<r.par, NormCs(r.cs), r.cs0, r.wire>> THEN {"infra-edit-not-as-modelled"} ELSE {}

Slot == 7
RECURSIVE Walk(_, _, _, _, _, _, _, _)
Walk(e, k, p, c, z, w, assoc, lastOut) ==
  IF k > Len(e.acts) THEN {} ELSE
  LET a == e.acts[k]
      base == 2 + Slot * (k - 1)
      o == e.obs[base + 1]
      ppost == e.obs[base + 5].post
      cpost == e.obs[base + 6].post
      zbytes == e.obs[base + 7].out
      signs == SelectSeq(o.calls, LAMBDA x : x.call = "Sign" /\ x.reterr = "ok" /\ x.ret # <<>>)
      r == Step(p, c, z, w, a)
      assoc2 == IF a.op = "countersign" /\ Len(signs) = 1 /\ r.cs.sig # NoCs THEN assoc \cup {<<signs[1].ret, r.cs.sig>>}
                ELSE IF a.op = "countersign0" /\ Len(signs) = 1 /\ r.cs0 # NoCs THEN assoc \cup {<<signs[1].ret, r.cs0>>} ELSE assoc
      p2 == AbsPar(ppost, assoc2)
      c2 == AbsCs(cpost, assoc2)
      z2 == TermOf(zbytes, assoc2)
      out2 == IF a.op \in {"marshal", "rewire"} /\ o.res = "ok" /\ ~o.outnil THEN o.out ELSE lastOut
      w2 == AbsWire(out2, assoc2)
      panics == \E i \in 1..Slot : e.obs[base + i].res = "panic"
  IN (IF panics THEN {"C06:panic"} ELSE Judge(a, p, c, z, w, o, p2, c2, z2, w2, ppost, cpost))
     \cup Walk(e, k + 1, p2, c2, z2, w2, assoc2, out2)

Fails(e) == Walk(e, 1, AbsPar(e.obs[1].post, {}), AbsCs(e.obs[2].post, {}), NoCs, NoWire, {}, <<>>)
TInit == l = 1 /\ KitInit /\ Init
TNext == /\ l <= Len(Tr) /\ l' = l + 1
         /\ UNCHANGED vars
         /\ Note(l, Fails(Tr[l]))
TSpec == TInit /\ [][TNext]_<<l, vars>>
Accepted == KitDone(Len(Tr))
=============================================================================
