-------------------------------- MODULE Gen_Cs --------------------------------
(***************************************************************************)
(* Behaviours of CsModel for replay.  Objects of the harness: "p" the      *)
(* COSE_Sign1 parent, "c" the countersignature object, buffer "z" the      *)
(* abbreviated countersignature, buffer "w" the serialised parent.  Every  *)
(* model action becomes four interpreter steps (unused ones are probes)    *)
(* followed by three observations: the parent, the countersignature, the   *)
(* abbreviated bytes.  The model abstracts from the parent's retained raw  *)
(* bytes (CoseModel covers them): parsing is followed by dropping them.    *)
(***************************************************************************)
EXTENDS CsModel, GoValues, Json

AlgNum(a) == IF a = "A" THEN 0 - 7 ELSE 0 - 8
ExtRec(e) == IF e = "none" THEN [ext |-> <<>>, extnil |-> TRUE, extempty |-> FALSE] ELSE [ext |-> <<1, 2>>, extnil |-> FALSE, extempty |-> FALSE]
PayloadBytes(p) == CASE p = "nil" -> NilPayload [] p = "p1" -> <<1>> [] p = "p2" -> <<2>>
PSigBytes(g) == CASE g = "none" -> <<>> [] g = "s1" -> <<81>> [] g = "s2" -> <<82>>
JunkBytes == <<9, 9, 9>>
AlgV == [t |-> "alg", neg |-> TRUE, a |-> <<6>>]
ProtBucket(r) == IF r = "x" THEN <<<<GoInt("int64", 1), AlgV>>>> ELSE <<<<GoInt("int64", 1), AlgV>>, <<GoInt("int64", 3), GoInt("int64", 0)>>>>
KidBucket(k) == <<<<GoInt("int64", 4), GoBytes(<<k>>)>>>>
ProtElem(r) == Enc(ProtBstr(ProtBucket(r)))
PayloadElem(p) == Enc(IF p = "nil" THEN Null ELSE Bstr(PayloadBytes(p)))

Probe(o) == [op |-> "probe", obj |-> o]
InitSteps == << [op |-> "new", obj |-> "p", kind |-> "sign1", m |-> [P |-> ProtBucket("x"), U |-> KidBucket(0), payload |-> PayloadBytes("p1"), sig |-> PSigBytes("s1")]],
                [op |-> "new", obj |-> "c", kind |-> "csig", m |-> [P |-> <<>>, U |-> <<>>, sig |-> <<>>]] >>
Sgn(a) == <<[kind |-> "sym", name |-> a.key, alg |-> AlgNum(a.alg), fault |-> a.fault]>>
Vrf(a) == <<[kind |-> "sym", name |-> a.key, alg |-> AlgNum(a.alg), fault |-> ""]>>
Pad4(s) == s \o [i \in 1..(4 - Len(s)) |-> Probe("p")]
Concrete(a) ==
  Pad4(CASE a.op = "countersign"  -> <<[op |-> "countersign", obj |-> "c", signers |-> Sgn(a), parent |-> "p", form |-> a.form] @@ ExtRec(a.ext)>>
        [] a.op = "verifycs"     -> <<[op |-> "verifycs", obj |-> "c", verifiers |-> Vrf(a), parent |-> "p", form |-> a.form] @@ ExtRec(a.ext)>>
        [] a.op = "countersign0" -> <<[op |-> "countersign0", obj |-> "", signers |-> Sgn(a), parent |-> "p", form |-> a.form, buf |-> "z"] @@ ExtRec(a.ext)>>
        [] a.op = "verifycs0"    -> <<[op |-> "verifycs0", obj |-> "", verifiers |-> Vrf(a), parent |-> "p", form |-> a.form, buf |-> "z"] @@ ExtRec(a.ext)>>
        [] a.op = "marshal"      -> <<[op |-> "marshal", obj |-> "p", buf |-> "w"]>>
        [] a.op = "unmarshal"    -> <<[op |-> "unmarshal", obj |-> "p", kind |-> "sign1", buf |-> "w", setflag |-> TRUE],
                                      [op |-> "clearraw", obj |-> "p", ifflag |-> TRUE],
                                      [op |-> "extractcs", obj |-> "c", from |-> "p", label |-> 11, index |-> 0, ifflag |-> TRUE],
                                      [op |-> "extractcs0", obj |-> "", from |-> "p", label |-> 12, buf |-> "z", ifflag |-> TRUE]>>
        [] a.op = "edit" ->
             (CASE a.what = "prot"    -> <<[op |-> "setprot", obj |-> "p", m |-> [P |-> ProtBucket(a.vr), U |-> <<>>]]>>
                [] a.what = "payload" -> <<[op |-> "setpayload", obj |-> "p", payload |-> PayloadBytes(a.vp)]>>
                [] a.what = "psig"    -> <<[op |-> "setsig", obj |-> "p", slot |-> 0, sig |-> PSigBytes(a.vg)]>>
                [] a.what = "ukid"    -> <<[op |-> "setkid", obj |-> "p", kid |-> <<a.vk>>], [op |-> "clearraw", obj |-> "p"]>>
                [] a.what = "attach"  -> <<[op |-> "attachcs", obj |-> "p", label |-> 11, cs |-> "c"]>>
                [] a.what = "attach0" -> <<[op |-> "attachcs", obj |-> "p", label |-> 12, buf |-> "z"]>>
                [] a.what = "detach"  -> <<[op |-> "setunprot", obj |-> "p", m |-> [P |-> <<>>, U |-> KidBucket(0)]]>>
                [] a.what = "csalg"   -> <<IF a.va = "none" THEN [op |-> "setalg", obj |-> "c", absent |-> TRUE, alg |-> 0] ELSE [op |-> "setalg", obj |-> "c", absent |-> FALSE, alg |-> AlgNum(a.va)]>>
                [] a.what = "cssig"   -> <<[op |-> "setsig", obj |-> "c", slot |-> 0, sig |-> (IF a.vs = "junk" THEN JunkBytes ELSE <<>>)]>>
                [] a.what = "csraw"   -> <<[op |-> "clearraw", obj |-> "c"]>>
                [] a.what = "tofull"  -> <<[op |-> "setsig", obj |-> "c", slot |-> 0, sig |-> <<>>, frombuf |-> "z"]>>
                [] a.what = "toabbr"  -> <<[op |-> "getsig", obj |-> "c", buf |-> "z"]>>)
        [] a.op = "rewire" ->
             (CASE a.what = "prot"    -> <<[op |-> "rewire", obj |-> "", buf |-> "w", idx |-> 0, elem |-> ProtElem(a.vr)]>>
                [] a.what = "payload" -> <<[op |-> "rewire", obj |-> "", buf |-> "w", idx |-> 2, elem |-> PayloadElem(a.vp)]>>
                [] a.what = "psig"    -> <<[op |-> "rewire", obj |-> "", buf |-> "w", idx |-> 3, elem |-> Enc(Bstr(PSigBytes(a.vg)))]>>))
  \o << Probe("p"), Probe("c"), [op |-> "peek", obj |-> "", buf |-> "z"] >>
RECURSIVE Flat(_)
Flat(h) == IF h = <<>> THEN <<>> ELSE Concrete(Head(h)) \o Flat(Tail(h))
Steps(h) == InitSteps \o Flat(h)
\* exhaustive short behaviours from later points of the life cycle (PrefixId 1: a countersignature exists; 2: it travelled inside the
\* parent; 3: an abbreviated countersignature exists and is attached)
CONSTANT PrefixId
CsA == [op |-> "countersign", alg |-> "A", key |-> "k1", ext |-> "none", fault |-> "", form |-> "ptr"]
Cs0A == [op |-> "countersign0", alg |-> "A", key |-> "k1", ext |-> "none", fault |-> "", form |-> "ptr"]
Prefix == CASE PrefixId = 0 -> <<>> [] PrefixId = 1 -> <<CsA>>
            [] PrefixId = 2 -> <<CsA, [op |-> "edit", what |-> "attach"], [op |-> "marshal"], [op |-> "unmarshal"]>>
            [] PrefixId = 3 -> <<Cs0A, [op |-> "edit", what |-> "attach0"]>>
RECURSIVE After(_, _, _, _, _)
After(p, c, z, w, h) == IF h = <<>> THEN [par |-> p, cs |-> c, cs0 |-> z, wire |-> w] ELSE LET r == Step(p, c, z, w, Head(h)) IN After(r.par, r.cs, r.cs0, r.wire, Tail(h))
GInit == LET s == After(InitPar, InitCs, NoCs, NoWire, Prefix) IN
         par = s.par /\ cs = s.cs /\ cs0 = s.cs0 /\ wire = s.wire /\ last = [a |-> [op |-> "init"], res |-> "ok"] /\ hist = Prefix
GSpec == GInit /\ [][Next]_vars
Emit == Len(hist) < MaxHist \/ PrintT(<<"CASE", ToJson([acts |-> hist, steps |-> Steps(hist)])>>)
=============================================================================
