------------------------------ MODULE Trace_C01 ------------------------------
(* Judge for C01: in a happy-path program, once signing succeeded every later   *)
(* step (verify in memory, serialise, parse back, verify again, countersign,    *)
(* verify the countersignature standalone / nested / over the decoded parent)   *)
(* must succeed.                                                                *)
EXTENDS CoseSystem, Json, TraceKit
Tr == ndJsonDeserialize("tr.ndjson")
VARIABLE l

SigningOps == {"sign", "countersign", "countersign0", "sign1helper", "sign1untaggedhelper"}
FirstSign(e) == CHOOSE k \in 1..Len(e.obs) : e.obs[k].op \in SigningOps /\ \A j \in 1..(k - 1) : e.obs[j].op \notin SigningOps
Reason(o, k) ==
  CASE o.res = "panic" -> "panic"
    [] o.op \in {"verify", "verifycs", "verifycs0"} -> "matching-verification-fails"
    [] o.op = "marshal" -> "signed-message-cannot-be-serialised"
    [] o.op = "unmarshal" -> "own-serialisation-not-parsed-back"
    [] o.op \in SigningOps -> "later-signing-step-fails"
    [] OTHER -> "step-fails"
Fails(e) ==
  LET k0 == FirstSign(e) IN
  IF e.obs[k0].res # "ok" THEN (IF e.obs[k0].res = "panic" THEN {"panic"} ELSE {})
  ELSE { Reason(e.obs[k], k) : k \in { j \in (k0 + 1)..Len(e.obs) : e.obs[j].res # "ok" } }

TInit == l = 1 /\ KitInit
TNext == /\ l <= Len(Tr) /\ l' = l + 1
         /\ Note(l, Fails(Tr[l]))
TSpec == TInit /\ [][TNext]_l
Accepted == KitDone(Len(Tr))
=============================================================================
