------------------------------ MODULE CoseStruct ------------------------------
(***************************************************************************)
(* Shapes of COSE_Sign1 (tagged / untagged), COSE_Sign, COSE_Signature and *)
(* COSE_Countersignature on the wire (RFC 9052 section 4, RFC 9338), the   *)
(* Sig_structure / Countersign_structure builders (RFC 9052 4.4, RFC 9338  *)
(* 3.3), well-formedness (C05), conformance within the documented limits   *)
(* (C07) and the re-encoding prediction (C09).                             *)
(***************************************************************************)
EXTENDS CoseHeaders

Kinds == {"sign1", "sign1u", "sign", "sig", "csig"}

\* ---------------------------------------------------------------------------
\* envelope shapes
\* ---------------------------------------------------------------------------
\* index at which the 4-/3-array starts, 0 if the required prefix is absent
BodyStart(kind, b) ==
  CASE kind = "sign1"  -> IF Len(b) >= 2 /\ b[1] = 210 /\ b[2] = 132 THEN 2 ELSE 0
    [] kind = "sign1u" -> IF Len(b) >= 1 /\ b[1] = 132 THEN 1 ELSE 0
    [] kind = "sign"   -> IF Len(b) >= 3 /\ b[1] = 216 /\ b[2] = 98 /\ b[3] = 132 THEN 3 ELSE 0
    [] kind \in {"sig", "csig"} -> IF Len(b) >= 1 /\ b[1] = 131 THEN 1 ELSE 0

\* the parsed array of a message of this kind: [ok, item]
Body(kind, b) ==
  LET s == BodyStart(kind, b) IN
  IF s = 0 THEN [ok |-> FALSE, item |-> <<>>]
  ELSE LET r == ParseAt(b, s, 0) IN
       IF r.ok /\ r.next = Len(b) + 1 /\ r.item.k = "arr" /\ ~r.item.indef
       THEN [ok |-> TRUE, item |-> r.item] ELSE [ok |-> FALSE, item |-> <<>>]

WFSignatures(x) == IsArr(x) /\ Len(x.xs) >= 1 /\ \A i \in 1..Len(x.xs) : WFSig3(x.xs[i])

\* C05: what an accepted byte string of each kind must be
WFCose(kind, b) ==
  LET r == Body(kind, b) IN
  /\ r.ok
  /\ IF kind \in {"sig", "csig"} THEN WFSig3(r.item)
     ELSE /\ Len(r.item.xs) = 4
          /\ WFProt(r.item.xs[1]) /\ WFUnprot(r.item.xs[2]) /\ WFPayload(r.item.xs[3])
          /\ CrossIVOK(r.item.xs[1], r.item.xs[2])
          /\ IF kind = "sign" THEN WFSignatures(r.item.xs[4]) ELSE WFSigField(r.item.xs[4])

\* ---------------------------------------------------------------------------
\* C07: conforming messages within the documented limits
\* ---------------------------------------------------------------------------
RECURSIVE LimSig3(_, _)
RECURSIVE LimUnprot(_, _)
\* "no tags in the envelope or unprotected values": inside the VALUES of protected parameters tags are within the limits.  Demanded
\* here only for tag numbers without built-in meaning in the CBOR library (1 with an unsigned integer, 32, 37, 99999), one level.
\* tagsOK = FALSE gives the tag-free subset (every header value has a lossless representation in the host language).
PlainTagHere(it) == it.k # "tag" \/ (it.x.k # "tag" /\
                      (it.a \in {NatToArg(32), NatToArg(37), NatToArg(99999)} \/ (it.a = NatToArg(1) /\ it.x.k = "uint")))
LimProt(x, tagsOK) == x.b = <<>> \/ LET p == ParseAll(x.b) IN
                 /\ AllNodes(IntsWithinInt64Here, p.item) /\ AllNodes(NoFloatSimpleKeyHere, p.item)
                 /\ AllNodes(NoOddSimpleHere, p.item) /\ AllNodes(TextOKHere, p.item)
                 /\ p.item.k = "map" /\ (\A i \in 1..Len(p.item.ps) : AllNodes(NotTag, p.item.ps[i][1]) /\ AllNodes(PlainTagHere, p.item.ps[i][2]))
                 /\ (tagsOK \/ AllNodes(NotTag, p.item))
                 /\ AllNodes(NoFloatHere, p.item)
IsOneSig(v) == IsArr(v) /\ Len(v.xs) = 3 /\ v.xs[1].k = "bstr"
CsLim(v, tagsOK) == IF IsOneSig(v) THEN LimSig3(v, tagsOK)
            ELSE Len(v.xs) > 0 /\ \A i \in 1..Len(v.xs) : LimSig3(v.xs[i], tagsOK)
LimUnprot(x, tagsOK) ==
  \A i \in 1..Len(x.ps) :
     IF IsUIntN(x.ps[i][1], LblCounterSig) \/ IsUIntN(x.ps[i][1], LblCounterSigV2)
     THEN CsLim(x.ps[i][2], tagsOK)
     ELSE WithinLimitsItem(x.ps[i][1]) /\ WithinLimitsItem(x.ps[i][2])
LimSig3(v, tagsOK) == LimProt(v.xs[1], tagsOK) /\ LimUnprot(v.xs[2], tagsOK)

ConformingT(kind, b, tagsOK) ==
  /\ WFCose(kind, b)
  /\ LET it == Body(kind, b).item IN
     IF kind \in {"sig", "csig"} THEN LimSig3(it, tagsOK)
     ELSE /\ LimProt(it.xs[1], tagsOK) /\ LimUnprot(it.xs[2], tagsOK)
          /\ (kind = "sign" => (\A i \in 1..Len(it.xs[4].xs) : LimSig3(it.xs[4].xs[i], tagsOK)))
Conforming(kind, b) == ConformingT(kind, b, TRUE)
ConformingTagFree(kind, b) == ConformingT(kind, b, FALSE)

\* ---------------------------------------------------------------------------
\* Sig_structure (RFC 9052 4.4) and Countersign_structure (RFC 9338 3.3)
\* ---------------------------------------------------------------------------
S_Signature1 == <<83, 105, 103, 110, 97, 116, 117, 114, 101, 49>>
S_Signature  == <<83, 105, 103, 110, 97, 116, 117, 114, 101>>
S_CounterSignature    == <<67, 111, 117, 110, 116, 101, 114, 83, 105, 103, 110, 97, 116, 117, 114, 101>>
S_CounterSignatureV2  == S_CounterSignature \o <<86, 50>>
S_CounterSignature0   == S_CounterSignature \o <<48>>
S_CounterSignature0V2 == S_CounterSignature \o <<48, 86, 50>>

\* protected bstr "as on the wire, only the length prefix normalised" (RFC 9052 section 9)
NormHead(protItem) == [protItem EXCEPT !.w = 0]

Sig1Structure(bodyProt, ext, payload) ==
  Enc(Arr(<<Tstr(S_Signature1), NormHead(bodyProt), Bstr(ext), Bstr(payload)>>))
SigStructure(bodyProt, signProt, ext, payload) ==
  Enc(Arr(<<Tstr(S_Signature), NormHead(bodyProt), NormHead(signProt), Bstr(ext), Bstr(payload)>>))

\* parentKind in {"sign1","sign","sig","csig"}; abbreviated countersignatures use h'' as sign_protected.
\* payloadField: the parent's payload (messages) or the parent's signature (Signature/Countersignature);
\* otherSig: the parent's signature for a COSE_Sign1 parent.
CountersignStructure(parentKind, abbreviated, parentProt, csProt, ext, payloadField, otherSig) ==
  LET v2  == parentKind = "sign1"
      ctx == IF v2 THEN (IF abbreviated THEN S_CounterSignature0V2 ELSE S_CounterSignatureV2)
                   ELSE (IF abbreviated THEN S_CounterSignature0 ELSE S_CounterSignature)
      sp  == IF abbreviated THEN Bstr(<<>>) ELSE NormHead(csProt)
      base == <<Tstr(ctx), NormHead(parentProt), sp, Bstr(ext), Bstr(payloadField)>>
  IN Enc(Arr(IF v2 THEN Append(base, Arr(<<Bstr(otherSig)>>)) ELSE base))

\* Sig_structure of signature slot i of a message of this kind, computed from its wire bytes; the verifier
\* supplies `payload` when the message carries nil; a standalone COSE_Signature is verified against the
\* given body_protected item.  <<>> when the bytes do not have the shape needed to form the structure.
TbsOf(kind, b, i, ext, payload, standaloneBodyProt) ==
  LET r == Body(kind, b) IN
  IF ~r.ok THEN <<>>
  ELSE LET it == r.item IN
    CASE kind \in {"sign1", "sign1u"} ->
           IF Len(it.xs) = 4 /\ IsBstr(it.xs[1]) /\ (IsBstr(it.xs[3]) \/ it.xs[3] = Null)
           THEN Sig1Structure(it.xs[1], ext, IF it.xs[3] = Null THEN payload ELSE it.xs[3].b) ELSE <<>>
      [] kind = "sign" ->
           IF Len(it.xs) = 4 /\ IsBstr(it.xs[1]) /\ (IsBstr(it.xs[3]) \/ it.xs[3] = Null) /\ IsArr(it.xs[4]) /\ i <= Len(it.xs[4].xs)
              /\ IsArr(it.xs[4].xs[i]) /\ Len(it.xs[4].xs[i].xs) = 3 /\ IsBstr(it.xs[4].xs[i].xs[1])
           THEN SigStructure(it.xs[1], it.xs[4].xs[i].xs[1], ext, IF it.xs[3] = Null THEN payload ELSE it.xs[3].b) ELSE <<>>
      [] kind \in {"sig", "csig"} ->
           IF Len(it.xs) = 3 /\ IsBstr(it.xs[1]) THEN SigStructure(standaloneBodyProt, it.xs[1], ext, payload) ELSE <<>>


\* number of signatures carried by a (parsable) message
NSigs(kind, b) == LET r == Body(kind, b) IN
  IF ~r.ok THEN 0 ELSE IF kind = "sign" THEN (IF Len(r.item.xs) = 4 /\ IsArr(r.item.xs[4]) THEN Len(r.item.xs[4].xs) ELSE 0) ELSE 1
\* signature bytes of slot i (<<>> if not a byte string)
SigBytesOf(kind, b, i) == LET r == Body(kind, b) IN
  IF ~r.ok THEN <<>>
  ELSE CASE kind \in {"sign1", "sign1u"} -> IF Len(r.item.xs) = 4 /\ r.item.xs[4].k = "bstr" THEN r.item.xs[4].b ELSE <<>>
         [] kind = "sign" -> IF Len(r.item.xs) = 4 /\ IsArr(r.item.xs[4]) /\ i <= Len(r.item.xs[4].xs) /\ IsArr(r.item.xs[4].xs[i])
                               /\ Len(r.item.xs[4].xs[i].xs) = 3 /\ r.item.xs[4].xs[i].xs[3].k = "bstr" THEN r.item.xs[4].xs[i].xs[3].b ELSE <<>>
         [] kind \in {"sig", "csig"} -> IF Len(r.item.xs) = 3 /\ r.item.xs[3].k = "bstr" THEN r.item.xs[3].b ELSE <<>>
\* protected bstr item that governs slot i (the signer's own layer)
SignerProtOf(kind, b, i) == LET it == Body(kind, b).item IN
  CASE kind \in {"sign1", "sign1u", "sig", "csig"} -> it.xs[1] [] kind = "sign" -> it.xs[4].xs[i].xs[1]

\* ---------------------------------------------------------------------------
\* C09: what re-encoding a decoded message must produce
\* ---------------------------------------------------------------------------
W0(x) == IF x.k \in {"bstr", "tstr", "arr", "map", "uint", "nint", "tag"} THEN [x EXCEPT !.w = 0] ELSE x
ReSig3(v) == Arr(<<v.xs[1], v.xs[2], W0(v.xs[3])>>)
ReencodePrediction(kind, b) ==
  LET it == Body(kind, b).item IN
  CASE kind = "sign1"  -> <<210>> \o Enc(Arr(<<it.xs[1], it.xs[2], W0(it.xs[3]), W0(it.xs[4])>>))
    [] kind = "sign1u" -> Enc(Arr(<<it.xs[1], it.xs[2], W0(it.xs[3]), W0(it.xs[4])>>))
    [] kind = "sign"   -> <<216, 98>> \o Enc(Arr(<<it.xs[1], it.xs[2], W0(it.xs[3]),
                               Arr([i \in 1..Len(it.xs[4].xs) |-> ReSig3(it.xs[4].xs[i])])>>))
    [] kind \in {"sig", "csig"} -> Enc(ReSig3(it))


\* C09, as the property words it: output and input agree in both header buckets of every layer byte for byte and in the
\* payload and signature VALUES; only the width of the payload / signature length prefixes and of the signatures-array
\* head may differ (in either direction).
SameSig3UpToWidths(a, b) == /\ IsArr(a) /\ IsArr(b) /\ Len(a.xs) = 3 /\ Len(b.xs) = 3
                            /\ a.xs[1] = b.xs[1] /\ a.xs[2] = b.xs[2] /\ W0(a.xs[3]) = W0(b.xs[3])
SameUpToAllowedWidths(kind, out, in) ==
  LET a == Body(kind, out) b == Body(kind, in) IN
  /\ a.ok /\ b.ok
  /\ IF kind \in {"sig", "csig"} THEN SameSig3UpToWidths(a.item, b.item)
     ELSE /\ Len(a.item.xs) = 4 /\ Len(b.item.xs) = 4
          /\ a.item.xs[1] = b.item.xs[1] /\ a.item.xs[2] = b.item.xs[2] /\ W0(a.item.xs[3]) = W0(b.item.xs[3])
          /\ IF kind = "sign"
             THEN /\ IsArr(a.item.xs[4]) /\ IsArr(b.item.xs[4]) /\ Len(a.item.xs[4].xs) = Len(b.item.xs[4].xs)
                  /\ \A i \in 1..Len(a.item.xs[4].xs) : SameSig3UpToWidths(a.item.xs[4].xs[i], b.item.xs[4].xs[i])
             ELSE W0(a.item.xs[4]) = W0(b.item.xs[4])

\* C09: the canonical form obtained after the caller discards the retained raw bytes of every layer:
\* each protected bucket re-encoded deterministically (h'' when empty), each unprotected bucket sorted with shortest
\* heads, nested countersignatures treated the same way, payload / signature heads shortest.
RECURSIVE CanonSig3(_)
RECURSIVE CanonUnprotItem(_)
CanonProtItem(x) == LET pm == ProtMap(x) IN
  IF ~pm.ok THEN x ELSE IF pm.ps = <<>> THEN Bstr(<<>>) ELSE Bstr(Enc(Canon(Map(pm.ps))))
CanonCsValue(v) == IF IsOneSig(v) THEN CanonSig3(v) ELSE IF IsArr(v) THEN Arr([i \in 1..Len(v.xs) |-> CanonSig3(v.xs[i])]) ELSE Canon(v)
CanonUnprotItem(u) ==
  IF u.k # "map" THEN u ELSE
  Map(SortPairs([i \in 1..Len(u.ps) |->
        <<Canon(u.ps[i][1]), IF IsUIntN(u.ps[i][1], LblCounterSig) \/ IsUIntN(u.ps[i][1], LblCounterSigV2) THEN CanonCsValue(u.ps[i][2]) ELSE Canon(u.ps[i][2])>>]))
CanonSig3(v) == IF IsArr(v) /\ Len(v.xs) = 3 THEN Arr(<<CanonProtItem(v.xs[1]), CanonUnprotItem(v.xs[2]), W0(v.xs[3])>>) ELSE v
ClearedPrediction(kind, b) ==
  LET it == Body(kind, b).item IN
  CASE kind = "sign1"  -> <<210>> \o Enc(Arr(<<CanonProtItem(it.xs[1]), CanonUnprotItem(it.xs[2]), W0(it.xs[3]), W0(it.xs[4])>>))
    [] kind = "sign1u" -> Enc(Arr(<<CanonProtItem(it.xs[1]), CanonUnprotItem(it.xs[2]), W0(it.xs[3]), W0(it.xs[4])>>))
    [] kind = "sign"   -> <<216, 98>> \o Enc(Arr(<<CanonProtItem(it.xs[1]), CanonUnprotItem(it.xs[2]), W0(it.xs[3]),
                               Arr([i \in 1..Len(it.xs[4].xs) |-> CanonSig3(it.xs[4].xs[i])])>>))
    [] kind \in {"sig", "csig"} -> Enc(CanonSig3(it))
=============================================================================
