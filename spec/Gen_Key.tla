-------------------------------- MODULE Gen_Key -------------------------------
(* Behaviours of KeyModel for replay: object "k" (a COSE_Key), buffer "kb"; every model action is one interpreter step (the step
   reports the projected key). *)
EXTENDS KeyModel, Json
InitStep == [op |-> "keynew", obj |-> "k", kty |-> "EC2", pair |-> "a", priv |-> TRUE]
Concrete(a) ==
  CASE a.op = "new" -> [op |-> "keynew", obj |-> "k", kty |-> a.kty, pair |-> a.pair, priv |-> a.priv]
    [] a.op = "edit" -> IF a.what = "dropd" THEN [op |-> "keyedit", obj |-> "k", what |-> "dropd", v |-> ""] ELSE [op |-> "keyedit", obj |-> "k", what |-> a.what, v |-> a.v]
    [] a.op = "marshal" -> [op |-> "keymarshal", obj |-> "k", buf |-> "kb"]
    [] a.op = "unmarshal" -> [op |-> "keyunmarshal", obj |-> "k", buf |-> "kb"]
    [] a.op = "signer" -> [op |-> "keysigner", obj |-> "k"]
    [] a.op = "verifier" -> [op |-> "keyverifier", obj |-> "k"]
    [] a.op = "sign" -> [op |-> "keysign", obj |-> "k"]
    [] a.op = "verify" -> [op |-> "keyverify", obj |-> "k"]
Steps(h) == <<InitStep>> \o [i \in 1..Len(h) |-> Concrete(h[i])]
\* exhaustive short behaviours from later points: a signature exists (1); the key went over the wire (2); a verify-only key (3)
CONSTANT PrefixId
Prefix == CASE PrefixId = 0 -> <<>>
            [] PrefixId = 1 -> <<[op |-> "signer"], [op |-> "verifier"], [op |-> "sign"]>>
            [] PrefixId = 2 -> <<[op |-> "marshal"], [op |-> "unmarshal"]>>
            [] PrefixId = 3 -> <<[op |-> "edit", what |-> "ops", v |-> "verify"], [op |-> "marshal"]>>
RECURSIVE After(_, _, _, _, _, _)
After(k, w, s, v, g, h) == IF h = <<>> THEN [key |-> k, wire |-> w, sh |-> s, vh |-> v, sg |-> g]
                           ELSE LET r == Step(k, w, s, v, g, Head(h)) IN After(r.key, r.wire, r.sh, r.vh, r.sg, Tail(h))
GInit == LET s == After(InitKey, NoWire, NoHandle, NoHandle, NoHandle, Prefix) IN
         key = s.key /\ wire = s.wire /\ sh = s.sh /\ vh = s.vh /\ sg = s.sg /\ last = [a |-> [op |-> "init"], res |-> "ok"] /\ hist = Prefix
GSpec == GInit /\ [][Next]_vars
Emit == Len(hist) < MaxHist \/ PrintT(<<"CASE", ToJson([keymodel |-> TRUE, acts |-> hist, steps |-> Steps(hist)])>>)
=============================================================================
