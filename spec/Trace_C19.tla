------------------------------ MODULE Trace_C19 ------------------------------
(* Judge for C19: decoding depends only on the input bytes.  The abstract state  *)
(* of the destination after each step of a recorded history must be: the value   *)
(* a fresh decode of the same bytes gives (after a successful decode), unchanged  *)
(* (after a failed decode, after overwriting any buffer, after serialising).      *)
EXTENDS CoseSystem, Json, TraceKit
Tr == ndJsonDeserialize("tr.ndjson")
VARIABLE l

\* walk the observations carrying the expected abstract state of the destination and the last output
RECURSIVE Walk(_, _, _, _, _)
Walk(obs, k, cur, outState, outBytes) ==
  IF k > Len(obs) THEN {} ELSE
  LET o == obs[k] IN
  CASE o.res = "panic" -> {"panic"}
    [] o.op = "zero" -> Walk(obs, k + 1, o.post, outState, outBytes)
    [] o.op = "unmarshal" /\ o.obj # "d" -> Walk(obs, k + 1, cur, outState, outBytes)        \* another variable: must not matter (checked by the probe that follows)
    [] o.op = "unmarshal" ->
         IF o.res = "ok"
         THEN (IF o.freshres # "ok" THEN {"accepted-only-because-of-history"} ELSE IF o.post # o.fresh THEN {"decoded-value-depends-on-previous-content"} ELSE {})
              \cup Walk(obs, k + 1, o.post, outState, outBytes)
         ELSE (IF o.freshres = "ok" THEN {"rejected-only-because-of-history"} ELSE {})
              \cup (IF o.post # cur THEN {"failed-decode-modified-the-destination"} ELSE {})
              \cup Walk(obs, k + 1, o.post, outState, outBytes)      \* continue from the observed state: one defect, one report
    [] o.op = "probe" -> (IF o.post # cur THEN {"decoded-value-shares-memory-with-a-buffer-or-another-decoded-value"} ELSE {}) \cup Walk(obs, k + 1, o.post, outState, outBytes)
    [] o.op = "marshal" ->
         (IF o.post # cur THEN {"serialising-modified-the-object"} ELSE {})
         \cup (IF o.res = "ok" /\ outState = cur /\ o.out # outBytes THEN {"serialisation-affected-by-overwriting-an-earlier-output"} ELSE {})
         \cup (IF o.res = "ok" THEN Walk(obs, k + 1, o.post, o.post, o.out) ELSE Walk(obs, k + 1, o.post, outState, outBytes))
    [] OTHER -> Walk(obs, k + 1, cur, outState, outBytes)

Fails(e) == Walk(e.obs, 1, [none |-> TRUE], [none |-> TRUE], <<>>)
TInit == l = 1 /\ KitInit
TNext == /\ l <= Len(Tr) /\ l' = l + 1
         /\ Note(l, Fails(Tr[l]))
TSpec == TInit /\ [][TNext]_l
Accepted == KitDone(Len(Tr))
=============================================================================
