------------------------------ MODULE Trace_C15 ------------------------------
(* Judge for C15: accepted COSE_Keys are consistent, re-encode stably, and give  *)
(* signers / verifiers only when the key material and key_ops allow it, always   *)
(* for the algorithm fixed by the key.                                           *)
EXTENDS CoseKey, Json, TraceKit
Tr == ndJsonDeserialize("tr.ndjson")
VARIABLE l

RECURSIVE Untag(_)
Untag(it) == IF it.k = "tag" THEN Untag(it.x) ELSE it
Fails(e) ==
  (IF e.panics # <<>> THEN {"panic"} ELSE {})
  \* decoding is a function of the bytes: an earlier key (copied by value) is not changed by a later decode into the same variable, and
  \* verdict and value do not depend on what the destination held before
  \cup (IF ~e.priorok THEN {"key-serialised-by-the-library-refused-after-other-decodes"} ELSE {})
  \cup (IF e.afterbadacc # e.acc THEN {"verdict-depends-on-an-earlier-refused-decode"} ELSE {})
  \cup (IF e.acc /\ e.afterbadacc /\ e.reenc = "ok" /\ e.afterbadre # e.re THEN {"decoded-key-depends-on-an-earlier-refused-decode"} ELSE {})
  \cup (IF ~e.priorstable THEN {"earlier-key-changed-by-a-later-decode-into-the-same-variable"} ELSE {})
  \cup (IF e.usedacc # e.acc THEN {"verdict-depends-on-what-the-destination-held-before"} ELSE {})
  \cup (IF e.acc /\ e.usedacc /\ e.reenc = "ok" /\ e.usedre # e.re THEN {"decoded-key-depends-on-what-the-destination-held-before"} ELSE {})
  \cup (IF ~e.acc THEN {} ELSE
        LET r0 == ParseAll(e.bytes)
            r == IF r0.ok THEN [ok |-> TRUE, item |-> Untag(r0.item)] ELSE [ok |-> FALSE, item |-> Null] IN   \* tags around the map are not excluded by the property
        IF ~r.ok \/ r.item.k # "map" THEN {"accepted-something-that-is-not-one-cbor-map"}
        ELSE LET ps == r.item.ps  dalg == DeriveAlg(Kty(ps), Crv(ps)) IN
          (IF ~AcceptedKeyOK(r.item) THEN {"accepted-inconsistent-key"} ELSE {})
          \cup (IF e.reenc # "ok" \/ e.redec # "ok" \/ e.re2 # e.re THEN {"reencoding-not-stable"} ELSE {})
          \cup (IF e.signer = "ok" /\ ~SignerAllowed(ps) THEN {"signer-from-key-that-must-not-sign"} ELSE {})
          \cup (IF e.signer = "ok" /\ e.signeralg # dalg THEN {"signer-for-another-algorithm"} ELSE {})
          \cup (IF e.verifier = "ok" /\ ~VerifierAllowed(ps) THEN {"verifier-from-key-that-must-not-verify"} ELSE {})
          \cup (IF e.verifier = "ok" /\ e.verifieralg # dalg THEN {"verifier-for-another-algorithm"} ELSE {}))

TInit == l = 1 /\ KitInit
TNext == /\ l <= Len(Tr) /\ l' = l + 1
         /\ Note(l, Fails(Tr[l]))
TSpec == TInit /\ [][TNext]_l
Accepted == KitDone(Len(Tr))
=============================================================================
