package main

import (
	"bytes"
	"crypto/rand"
	"encoding/json"
	"sync"

	cose "github.com/veraison/go-cose"
)

var priorKeyOnce sync.Once
var priorKeyVal []byte

// priorKeyBytes: a P-256 private key restricted to verification, with a key id and a base IV
func priorKeyBytes() []byte {
	priorKeyOnce.Do(func() {
		k, err := cose.NewKeyFromPrivate(keyFor("p256-b"))
		if err != nil {
			fatal("prior key: %v", err)
		}
		k.ID, k.Ops, k.BaseIV = []byte("prior"), []cose.KeyOp{cose.KeyOpVerify}, []byte{9, 9}
		priorKeyVal, err = k.MarshalCBOR()
		if err != nil {
			fatal("prior key: %v", err)
		}
	})
	return priorKeyVal
}

func keyProj(k *cose.Key) J {
	ops := []any{}
	for _, o := range k.Ops {
		ops = append(ops, int(o))
	}
	_, serr := k.Signer()
	_, verr := k.Verifier()
	return J{"type": int(k.Type), "alg": int(k.Algorithm), "id": rawJ(k.ID), "ops": ops, "baseiv": rawJ(k.BaseIV), "params": projectPairs(k.Params),
		"signer": errClass(serr), "verifier": errClass(verr)}
}

func init() {
	// keydec: offer bytes to Key.UnmarshalCBOR and exercise everything reachable from an accepted key
	execs["keydec"] = func(c J) J {
		b := bytesOf(c["bytes"])
		ev := J{"op": "keydec", "bytes": c["bytes"], "c": c["c"], "mutated": c["mutated"], "src": c["src"]}
		var panics []any
		try := func(what string, f func()) {
			if p := guard(f); p != "" {
				panics = append(panics, what+": "+p)
			}
		}
		var k cose.Key
		var err error
		try("unmarshal", func() { err = viaRecv(b, k.UnmarshalCBOR) })
		ev["acc"] = err == nil && len(panics) == 0
		ev["reenc"], ev["redec"], ev["re"], ev["re2"] = "n/a", "n/a", []int{}, []int{}
		ev["signer"], ev["verifier"], ev["priv"], ev["pub"], ev["signeralg"], ev["verifieralg"], ev["sigok"] = "n/a", "n/a", "n/a", "n/a", 0, 0, "n/a"
		if err == nil && len(panics) == 0 {
			var re, re2 []byte
			try("marshal", func() {
				var e2 error
				re, e2 = k.MarshalCBOR()
				ev["reenc"] = okErr(e2)
				if e2 == nil {
					ev["re"] = ints(re)
					var k2 cose.Key
					e3 := viaRecv(re, k2.UnmarshalCBOR)
					ev["redec"] = okErr(e3)
					if e3 == nil {
						re2, e3 = k2.MarshalCBOR()
						if e3 == nil {
							ev["re2"] = ints(re2)
						}
					}
				}
			})
			var signer cose.Signer
			var verifier cose.Verifier
			try("signer", func() {
				var e2 error
				signer, e2 = k.Signer()
				ev["signer"] = errClass(e2)
				if e2 == nil {
					ev["signeralg"] = int(signer.Algorithm())
				}
			})
			try("verifier", func() {
				var e2 error
				verifier, e2 = k.Verifier()
				ev["verifier"] = errClass(e2)
				if e2 == nil {
					ev["verifieralg"] = int(verifier.Algorithm())
				}
			})
			try("privatekey", func() { _, e2 := k.PrivateKey(); ev["priv"] = okErr(e2) })
			try("publickey", func() { _, e2 := k.PublicKey(); ev["pub"] = okErr(e2) })
			try("algorithmordefault", func() { _, _ = k.AlgorithmOrDefault() })
			try("accessors", func() { k.EC2(); k.OKP(); k.Symmetric() })
			if signer != nil {
				try("sign", func() {
					sig, e2 := signer.Sign(rand.Reader, []byte("msg"))
					if e2 == nil && verifier != nil {
						ev["sigok"] = errClass(verifier.Verify([]byte("msg"), sig))
					} else if e2 != nil {
						ev["sigok"] = "sign-err"
					}
				})
			} else if verifier != nil {
				try("verify", func() { _ = verifier.Verify([]byte("msg"), bytes.Repeat([]byte{1}, 64)) })
			}
		}
		// an earlier key decoded into a variable and copied by value stays what it was when the variable is decoded into again, and the
		// verdict on the bytes does not depend on what the destination held before
		ev["priorstable"], ev["usedacc"], ev["usedre"], ev["priorok"] = true, ev["acc"], ev["re"], true
		// ... nor on a decode that was refused half-way just before (a private key with its key type given twice)
		ev["afterbadacc"], ev["afterbadre"] = ev["acc"], ev["re"]
		try("after-refused-decode", func() {
			var kb cose.Key
			bad := append(append([]byte{}, priorKeyBytes()...), 0x01, 0x02) // one more pair: kty again
			bad[0]++                                                        // (map of n+1 pairs)
			_ = viaRecv(bad, kb.UnmarshalCBOR)
			var kf cose.Key
			e3 := viaRecv(b, kf.UnmarshalCBOR)
			ev["afterbadacc"] = e3 == nil
			if e3 == nil {
				if re, e4 := kf.MarshalCBOR(); e4 == nil {
					ev["afterbadre"] = ints(re)
				} else {
					ev["afterbadre"] = []int{}
				}
			}
		})
		try("used-destination", func() {
			var kv cose.Key
			if e2 := viaRecv(priorKeyBytes(), kv.UnmarshalCBOR); e2 != nil {
				ev["priorok"] = false // a key the library itself serialised: the judge reports its refusal
				return
			}
			snap := kv
			before, _ := json.Marshal(keyProj(&snap))
			e3 := viaRecv(b, kv.UnmarshalCBOR)
			after, _ := json.Marshal(keyProj(&snap))
			ev["priorstable"] = bytes.Equal(before, after)
			ev["usedacc"] = e3 == nil
			if e3 == nil {
				if re, e4 := kv.MarshalCBOR(); e4 == nil {
					ev["usedre"] = ints(re)
				} else {
					ev["usedre"] = []int{}
				}
			}
		})
		if panics == nil {
			panics = []any{}
		}
		ev["panics"] = panics
		return ev
	}
}
