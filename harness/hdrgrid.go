package main

import (
	"bytes"
	"encoding/json"

	cose "github.com/veraison/go-cose"
)

func payloadOf(v any) []byte {
	if a, ok := v.([]any); ok && len(a) >= 1 {
		if f, ok := a[0].(float64); ok && f == -1 {
			return nil // NilPayload == <<-1>>
		}
		if f, ok := a[0].(float64); ok && f == -2 && len(a) == 4 {
			// size token <<-2, b2, b1, b0>>: a long payload whose bytes the specification does not need
			n := int(a[1].(float64))<<16 | int(a[2].(float64))<<8 | int(a[3].(float64))
			b := make([]byte, n)
			for i := range b {
				b[i] = byte(i*131 + i>>8)
			}
			return b
		}
	}
	b := bytesOf(v)
	if b == nil {
		b = []byte{}
	}
	return b
}

func sigsOf(v any) []*cose.Signature {
	xs, _ := v.([]any)
	out := make([]*cose.Signature, len(xs))
	for i, x := range xs {
		out[i] = sigObj(x)
	}
	return out
}

// buildEncode constructs the in-memory structure described by (kind, m) and encodes it.
func buildEncode(kind string, m J) ([]byte, error) {
	switch kind {
	case "prot":
		return cose.ProtectedHeader(bucketOf(m["P"])).MarshalCBOR()
	case "unprot":
		return cose.UnprotectedHeader(bucketOf(m["U"])).MarshalCBOR()
	case "sign1":
		msg := cose.Sign1Message{Headers: headersOf(m), Payload: payloadOf(m["payload"]), Signature: bytesOf(m["sig"])}
		return msg.MarshalCBOR()
	case "sign1u":
		msg := cose.UntaggedSign1Message{Headers: headersOf(m), Payload: payloadOf(m["payload"]), Signature: bytesOf(m["sig"])}
		return msg.MarshalCBOR()
	case "sign":
		msg := cose.SignMessage{Headers: headersOf(m), Payload: payloadOf(m["payload"]), Signatures: sigsOf(m["sigs"])}
		return msg.MarshalCBOR()
	case "sig":
		return sigObj(m).MarshalCBOR()
	case "csig":
		return (*cose.Countersignature)(sigObj(m)).MarshalCBOR()
	}
	panic("buildEncode: unknown kind " + kind)
}

// decodeKind decodes b with the decoder of the given kind and returns the projection of the result.
func decodeKind(kind string, b []byte) (J, error) {
	switch kind {
	case "prot":
		var h cose.ProtectedHeader
		if err := viaRecv(b, h.UnmarshalCBOR); err != nil {
			return nil, err
		}
		return J{"P": projectBucket(h)}, nil
	case "unprot":
		var h cose.UnprotectedHeader
		if err := viaRecv(b, h.UnmarshalCBOR); err != nil {
			return nil, err
		}
		return J{"U": projectBucket(h)}, nil
	case "sign1":
		var m cose.Sign1Message
		if err := viaRecv(b, m.UnmarshalCBOR); err != nil {
			return nil, err
		}
		return projectSign1(&m), nil
	case "sign1u":
		var m cose.UntaggedSign1Message
		if err := viaRecv(b, m.UnmarshalCBOR); err != nil {
			return nil, err
		}
		return projectSign1((*cose.Sign1Message)(&m)), nil
	case "sign":
		var m cose.SignMessage
		if err := viaRecv(b, m.UnmarshalCBOR); err != nil {
			return nil, err
		}
		return projectSign(&m), nil
	case "sig":
		var m cose.Signature
		if err := viaRecv(b, m.UnmarshalCBOR); err != nil {
			return nil, err
		}
		return projectSig(&m), nil
	case "csig":
		var m cose.Countersignature
		if err := viaRecv(b, m.UnmarshalCBOR); err != nil {
			return nil, err
		}
		return projectSig((*cose.Signature)(&m)), nil
	}
	panic("decodeKind: unknown kind " + kind)
}

// priorImage is a valid value of the kind whose buckets hold parameters (IV, a kid, content type) that clash or mix with later ones.
func priorImage(kind string) []byte {
	prot := []byte{0x48, 0xa3, 0x01, 0x26, 0x03, 0x00, 0x05, 0x41, 0x01} // bstr {1: -7, 3: 0, 5: h'01'}
	unprot := []byte{0xa2, 0x04, 0x42, 0x6b, 0x31, 0x18, 0x63, 0x07}     // {4: 'k1', 99: 7}
	sig3 := append(append(append([]byte{0x83}, prot...), unprot...), 0x42, 0xaa, 0xbb)
	switch kind {
	case "prot":
		return prot
	case "unprot":
		return []byte{0xa3, 0x04, 0x42, 0x6b, 0x31, 0x05, 0x41, 0x01, 0x18, 0x63, 0x07} // {4: 'k1', 5: h'01', 99: 7}
	case "sign1", "sign1u":
		body := append(append(append([]byte{0x84}, prot...), unprot...), 0x41, 0x01, 0x42, 0xaa, 0xbb)
		if kind == "sign1" {
			return append([]byte{0xd2}, body...)
		}
		return body
	case "sign":
		body := append(append(append([]byte{0xd8, 0x62, 0x84}, prot...), unprot...), 0x41, 0x01, 0x81)
		return append(body, sig3...)
	case "sig", "csig":
		return sig3
	}
	panic("priorImage: " + kind)
}

// refusedImage is a value of the kind that the decoder refuses after it has looked at several parameters (label 7 holds no countersignature;
// the protected bucket names an absent critical label).
func refusedImage(kind string) []byte {
	prot := []byte{0x49, 0xa3, 0x01, 0x26, 0x02, 0x81, 0x18, 0x2a, 0x05, 0x41, 0x01}               // bstr {1: -7, 2: [42], 5: h'01'}
	unprot := []byte{0xa4, 0x04, 0x42, 0x6b, 0x31, 0x05, 0x41, 0x02, 0x06, 0x41, 0x03, 0x07, 0x01} // {4: 'k1', 5: h'02', 6: h'03', 7: 1}
	okprot := []byte{0x43, 0xa1, 0x01, 0x26}
	sig3 := append(append(append([]byte{0x83}, okprot...), unprot...), 0x42, 0xaa, 0xbb)
	switch kind {
	case "prot":
		return prot
	case "unprot":
		return unprot
	case "sign1", "sign1u":
		body := append(append(append([]byte{0x84}, okprot...), unprot...), 0x41, 0x01, 0x42, 0xaa, 0xbb)
		if kind == "sign1" {
			return append([]byte{0xd2}, body...)
		}
		return body
	case "sign":
		body := append(append(append([]byte{0xd8, 0x62, 0x84}, okprot...), unprot...), 0x41, 0x01, 0x81)
		return append(body, sig3...)
	case "sig", "csig":
		return sig3
	}
	panic("refusedImage: " + kind)
}

// decodeNoRaw decodes b and projects the value without raw bytes (content only).
func decodeNoRaw(kind string, b []byte) (J, error) {
	switch kind {
	case "prot":
		var h cose.ProtectedHeader
		if err := viaRecv(b, h.UnmarshalCBOR); err != nil {
			return nil, err
		}
		return J{"P": bucketNoNull(h), "U": []any{}}, nil
	case "unprot":
		var h cose.UnprotectedHeader
		if err := viaRecv(b, h.UnmarshalCBOR); err != nil {
			return nil, err
		}
		return J{"P": []any{}, "U": bucketNoNull(h)}, nil
	case "sign1":
		var m cose.Sign1Message
		if err := viaRecv(b, m.UnmarshalCBOR); err != nil {
			return nil, err
		}
		return noRawSign1(&m), nil
	case "sign1u":
		var m cose.UntaggedSign1Message
		if err := viaRecv(b, m.UnmarshalCBOR); err != nil {
			return nil, err
		}
		return noRawSign1((*cose.Sign1Message)(&m)), nil
	case "sign":
		var m cose.SignMessage
		if err := viaRecv(b, m.UnmarshalCBOR); err != nil {
			return nil, err
		}
		return noRawSign(&m), nil
	case "sig":
		var m cose.Signature
		if err := viaRecv(b, m.UnmarshalCBOR); err != nil {
			return nil, err
		}
		return noRawSig(&m), nil
	case "csig":
		var m cose.Countersignature
		if err := viaRecv(b, m.UnmarshalCBOR); err != nil {
			return nil, err
		}
		return noRawSig((*cose.Signature)(&m)), nil
	}
	panic("decodeNoRaw: unknown kind " + kind)
}

func init() {
	// header grid: encode the in-memory structure (several times), decode the specification's image
	execs["hdrgrid"] = func(c J) J {
		kind := str(c["kind"])
		m := c["m"].(map[string]any)
		image := bytesOf(c["image"])
		ev := J{"op": "hdrgrid", "struct": c["struct"], "kind": kind, "m": c["m"], "image": c["image"]}
		reps := 6
		var out []byte
		var encErr error
		same := true
		if p := guard(func() {
			for i := 0; i < reps; i++ {
				o, err := buildEncode(kind, m)
				if i == 0 {
					out, encErr = o, err
				} else if (err == nil) != (encErr == nil) || !bytes.Equal(o, out) {
					same = false
				}
			}
		}); p != "" {
			ev["enc"] = "panic"
			ev["panic"] = p
		} else {
			ev["enc"] = okErr(encErr)
		}
		if out == nil {
			out = []byte{}
		}
		// an encoder's output must not share memory with later outputs: encode a sibling value and look again
		kept := append([]byte{}, out...)
		outstable := true
		if encErr == nil && ev["enc"] == "ok" {
			guard(func() {
				m2 := J{}
				for k, v := range m {
					m2[k] = v
				}
				if _, ok := m2["payload"]; ok {
					m2["payload"] = []any{float64(7), float64(7), float64(7)}
				} else {
					m2["sig"] = []any{float64(7), float64(7), float64(7)}
				}
				for i := 0; i < 3; i++ {
					_, _ = buildEncode(kind, m2)
				}
			})
			outstable = bytes.Equal(kept, out)
		}
		ev["outstable"] = outstable
		out = kept
		ev["out"] = ints(out)
		ev["stable"] = same
		var decErr error
		var dec J
		if p := guard(func() { dec, decErr = decodeKind(kind, image) }); p != "" {
			ev["dec"] = "panic"
			ev["panic"] = p
		} else {
			ev["dec"] = okErr(decErr)
		}
		// the same image decoded into a destination that was used before (it holds a valid value of the same kind with other parameters):
		// verdict and value must be those of the fresh destination
		ev["decused"], ev["usedsame"], ev["priorok"], ev["prior"], ev["badrefused"], ev["bad"] = "n/a", true, true, ints(priorImage(kind)), true, ints(refusedImage(kind))
		if p := guard(func() {
			dst := newOfKind(kind)
			if err := unmarshalInto(dst, priorImage(kind)); err != nil {
				ev["priorok"] = false // the judge decides whether that image had to be accepted
				return
			}
			err := unmarshalInto(dst, image)
			ev["decused"] = okErr(err)
			if err == nil && decErr == nil {
				fresh := newOfKind(kind)
				_ = unmarshalInto(fresh, image)
				a, _ := json.Marshal(projectObj(dst))
				b, _ := json.Marshal(projectObj(fresh))
				ev["usedsame"] = bytes.Equal(a, b)
			}
		}); p != "" {
			ev["decused"] = "panic"
		}
		// ... and decoded (into a fresh destination) right after a decode of the same kind that was refused half-way
		ev["decafterbad"], ev["afterbadsame"] = "n/a", true
		if p := guard(func() {
			if err := unmarshalInto(newOfKind(kind), refusedImage(kind)); err == nil {
				ev["badrefused"] = false
			}
			dst := newOfKind(kind)
			err := unmarshalInto(dst, image)
			ev["decafterbad"] = okErr(err)
			if err == nil && decErr == nil {
				fresh := newOfKind(kind)
				_ = unmarshalInto(fresh, image)
				a, _ := json.Marshal(projectObj(dst))
				b, _ := json.Marshal(projectObj(fresh))
				ev["afterbadsame"] = bytes.Equal(a, b)
			}
		}); p != "" {
			ev["decafterbad"] = "panic"
		}
		// round trip of the library's own output (C08): decodable, and re-encoding gives the same bytes
		ev["outdec"] = "n/a"
		if encErr == nil && ev["enc"] == "ok" {
			var err2 error
			var dec2 J
			if p := guard(func() { dec2, err2 = decodeNoRaw(kind, out) }); p != "" {
				ev["outdec"] = "panic"
			} else {
				ev["outdec"] = okErr(err2)
				if err2 == nil {
					ev["decout"] = dec2
				}
			}
		}
		_ = dec
		return ev
	}
}
