// Command harness binds the TLA+ specification to the real go-cose code:
// it concretises abstract cases emitted by TLC, calls the public API of the
// library built from the working tree, and projects what happened into events
// that TLC validates (trace validation).  It never decides a verdict itself.
package main

import (
	"bufio"
	"encoding/json"
	"fmt"
	"os"
	"runtime"
	"strconv"
	"sync"
	"time"
)

type J = map[string]any

var execs = map[string]func(c J) J{}
var drivers = map[string]func(seed int64, tier string) []J{}

func main() {
	if len(os.Args) == 2 && os.Args[1] == "fixtures" {
		genFixtures()
		return
	}
	if len(os.Args) < 3 {
		fmt.Fprintln(os.Stderr, "usage: harness exec|drive <op>")
		os.Exit(2)
	}
	mode, op := os.Args[1], os.Args[2]
	seed, _ := strconv.ParseInt(os.Getenv("VERIF_SEED"), 10, 64)
	tier := os.Getenv("VERIF_TIER")
	if tier == "" {
		tier = "quick"
	}
	switch mode {
	case "exec":
		f, ok := execs[op]
		if !ok {
			fmt.Fprintln(os.Stderr, "unknown exec", op)
			os.Exit(2)
		}
		cases := readCases()
		serial := os.Getenv("VERIF_SERIAL") != ""
		out := runAll(cases, f, serial)
		writeEvents(out)
	case "drive":
		f, ok := drivers[op]
		if !ok {
			fmt.Fprintln(os.Stderr, "unknown driver", op)
			os.Exit(2)
		}
		writeEvents(f(seed, tier))
	default:
		os.Exit(2)
	}
}

func readCases() []J {
	var cases []J
	sc := bufio.NewScanner(os.Stdin)
	sc.Buffer(make([]byte, 1<<20), 1<<28)
	for sc.Scan() {
		line := sc.Bytes()
		if len(line) == 0 {
			continue
		}
		var c J
		if err := json.Unmarshal(line, &c); err != nil {
			fmt.Fprintln(os.Stderr, "bad case:", err)
			os.Exit(2)
		}
		cases = append(cases, c)
	}
	return cases
}

func writeEvents(evs []J) {
	w := bufio.NewWriterSize(os.Stdout, 1<<20)
	enc := json.NewEncoder(w)
	for _, e := range evs {
		if e == nil {
			continue
		}
		if err := enc.Encode(e); err != nil {
			fmt.Fprintln(os.Stderr, "encode:", err)
			os.Exit(2)
		}
	}
	w.Flush()
}

// runAll executes f on every case (in parallel unless serial), preserving order.
func runAll(cases []J, f func(J) J, serial bool) []J {
	out := make([]J, len(cases))
	if serial {
		for i, c := range cases {
			out[i] = f(c)
		}
		return out
	}
	var wg sync.WaitGroup
	ch := make(chan int, 1024)
	for w := 0; w < runtime.NumCPU(); w++ {
		wg.Add(1)
		go func() {
			defer wg.Done()
			for i := range ch {
				out[i] = f(cases[i])
			}
		}()
	}
	for i := range cases {
		ch <- i
	}
	close(ch)
	wg.Wait()
	return out
}

// viaRecv hands a decoder a private copy of the bytes - the application's receive buffer - and overwrites that buffer once the decoder
// has returned, as an application that reads the next message into it would: a decoded value must own everything it keeps.
func viaRecv(b []byte, decode func([]byte) error) error {
	if os.Getenv("VERIF_NORECV") != "" { // C19 observes sharing with the caller's own buffer step by step
		return decode(b)
	}
	cp := append(make([]byte, 0, len(b)+16), b...)
	err := decode(cp)
	// the next message has the same shape and other small values: labels, algorithm ids, small content bytes change, the heads of
	// strings, arrays and maps stay (so that what a decoded value wrongly shares with the buffer is still well-formed - and wrong)
	// (one input in two also keeps the small unsigned integers - the labels - so that an algorithm id changes under its own label)
	sum := 0
	for _, x := range b {
		sum += int(x)
	}
	lo := byte(0)
	if sum%2 == 1 {
		lo = 0x20
	}
	for i := range cp {
		if cp[i] >= lo && cp[i] < 0x38 {
			cp[i] ^= 0x01
		}
	}
	return err
}

// ---- small helpers ---------------------------------------------------------

func bytesOf(v any) []byte {
	if v == nil {
		return nil
	}
	a, ok := v.([]any)
	if !ok {
		panic(fmt.Sprintf("bytesOf: not an array: %T", v))
	}
	b := make([]byte, len(a))
	for i, x := range a {
		b[i] = byte(x.(float64))
	}
	return b
}

func ints(b []byte) []int {
	r := make([]int, len(b))
	for i, x := range b {
		r[i] = int(x)
	}
	return r
}

func str(v any) string {
	s, _ := v.(string)
	return s
}

func num(v any) int {
	f, _ := v.(float64)
	return int(f)
}

// guard runs f and reports a panic (as text) or a timeout instead of crashing.
func guard(f func()) (outcome string) {
	done := make(chan string, 1)
	go func() {
		defer func() {
			if r := recover(); r != nil {
				done <- fmt.Sprintf("panic: %v", r)
			}
		}()
		f()
		done <- ""
	}()
	select {
	case s := <-done:
		return s
	case <-time.After(120 * time.Second):
		return "timeout"
	}
}

func okErr(err error) string {
	if err == nil {
		return "ok"
	}
	return "err"
}
