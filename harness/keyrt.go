package main

import (
	"bytes"
	"crypto"
	"crypto/ecdsa"
	"crypto/ed25519"
	"crypto/rand"
	"crypto/sha256"
	"math/big"
	mrand "math/rand"

	cose "github.com/veraison/go-cose"
)

func beMin(v *big.Int) []int {
	if v == nil {
		return []int{}
	}
	return ints(v.Bytes())
}

func applyExtras(k *cose.Key, x J) {
	if x == nil {
		return
	}
	if x["kid"] == true {
		k.ID = []byte("kid-1")
	}
	switch str(x["ops"]) {
	case "both":
		k.Ops = []cose.KeyOp{cose.KeyOpSign, cose.KeyOpVerify}
	case "sign":
		k.Ops = []cose.KeyOp{cose.KeyOpSign}
	case "verify":
		k.Ops = []cose.KeyOp{cose.KeyOpVerify}
	}
	if x["baseiv"] == true {
		k.BaseIV = []byte{1, 2, 3}
	}
	if x["extra"] == true {
		k.Params["z"] = int64(7)
		k.Params[int64(-70000)] = []byte{9}
	}
}

// keyrt: Go key -> COSE_Key -> bytes -> COSE_Key -> Go key, for the private and the public half, then sign/verify
func keyRoundTrip(c J) J {
	curve := str(c["curve"])
	ev := J{"op": "keyrt", "curve": curve, "extras": c["extras"], "src": str(c["src"]), "name": str(c["name"])}
	extras, _ := c["extras"].(map[string]any)
	var priv crypto.Signer
	if curve == "ed" {
		seed := bytesOf(c["d"])
		k := ed25519.NewKeyFromSeed(seed)
		priv = k
		ev["d"], ev["x"], ev["y"] = ints(seed), ints([]byte(k.Public().(ed25519.PublicKey))), []int{}
	} else {
		d := new(big.Int).SetBytes(bytesOf(c["d"]))
		k := ecFromScalar(curveByName(curve), d)
		priv = k
		ev["d"], ev["x"], ev["y"] = beMin(k.D), beMin(k.X), beMin(k.Y)
	}
	ev["cbor"], ev["cborpub"], ev["cbor2"], ev["cbor3"] = []int{}, []int{}, []int{}, []int{}
	ev["rtd"], ev["rtx"], ev["rty"], ev["rtpx"], ev["rtpy"] = []int{}, []int{}, []int{}, []int{}, []int{}
	ev["sv"], ev["stdv"] = "n/a", false
	fail := func(stage string, err error) J {
		ev["stage"] = stage
		ev["err"] = err.Error()
		return ev
	}
	ev["stage"] = "done"
	var perr error
	if p := guard(func() {
		k, err := cose.NewKeyFromPrivate(priv)
		if err != nil {
			perr = err
			ev["stage"] = "NewKeyFromPrivate"
			return
		}
		applyExtras(k, extras)
		b, err := k.MarshalCBOR()
		if err != nil {
			perr = err
			ev["stage"] = "MarshalCBOR"
			return
		}
		ev["cbor"] = ints(b)
		if b2, err := k.MarshalCBOR(); err == nil {
			ev["cbor2"] = ints(b2)
		}
		var k2 cose.Key
		if extras["dirty"] == true {
			// decode into a variable that held another key before
			k2 = cose.Key{Type: cose.KeyTypeOKP, ID: []byte("old"), Algorithm: cose.AlgorithmEdDSA, Ops: []cose.KeyOp{cose.KeyOpVerify}, BaseIV: []byte{7},
				Params: map[any]any{int64(-1): cose.CurveEd25519, int64(-2): make([]byte, 32), "old": int64(1)}}
		}
		if err := viaRecv(b, k2.UnmarshalCBOR); err != nil {
			perr = err
			ev["stage"] = "UnmarshalCBOR"
			return
		}
		if b3, err := k2.MarshalCBOR(); err == nil {
			ev["cbor3"] = ints(b3)
		}
		p2, err := k2.PrivateKey()
		if err != nil {
			perr = err
			ev["stage"] = "PrivateKey"
			return
		}
		switch pk := p2.(type) {
		case *ecdsa.PrivateKey:
			ev["rtd"], ev["rtx"], ev["rty"] = beMin(pk.D), beMin(pk.X), beMin(pk.Y)
		case ed25519.PrivateKey:
			ev["rtd"], ev["rtx"] = ints(pk.Seed()), ints([]byte(pk.Public().(ed25519.PublicKey)))
		}
		kp, err := cose.NewKeyFromPublic(priv.Public())
		if err != nil {
			perr = err
			ev["stage"] = "NewKeyFromPublic"
			return
		}
		applyExtras(kp, extras)
		bp, err := kp.MarshalCBOR()
		if err != nil {
			perr = err
			ev["stage"] = "MarshalCBOR(public)"
			return
		}
		ev["cborpub"] = ints(bp)
		// a parsed key kept by value stays equal to what was parsed when the variable it came from is parsed into again
		ev["copystable"] = true
		{
			var kv cose.Key
			if viaRecv(b, kv.UnmarshalCBOR) == nil {
				kept := kv
				before, e1 := kept.MarshalCBOR()
				_ = viaRecv(bp, kv.UnmarshalCBOR)
				after, e2 := kept.MarshalCBOR()
				ev["copystable"] = e1 == nil && e2 == nil && bytes.Equal(before, after)
			}
		}
		var kp2 cose.Key
		if err := viaRecv(bp, kp2.UnmarshalCBOR); err != nil {
			perr = err
			ev["stage"] = "UnmarshalCBOR(public)"
			return
		}
		pub2, err := kp2.PublicKey()
		if err != nil {
			perr = err
			ev["stage"] = "PublicKey"
			return
		}
		switch pk := pub2.(type) {
		case *ecdsa.PublicKey:
			ev["rtpx"], ev["rtpy"] = beMin(pk.X), beMin(pk.Y)
		case ed25519.PublicKey:
			ev["rtpx"] = ints([]byte(pk))
		}
		if str(extras["ops"]) == "verify" || str(extras["ops"]) == "sign" {
			return // signer/verifier gating is C15's subject
		}
		signer, err := k2.Signer()
		if err != nil {
			perr = err
			ev["stage"] = "Signer"
			return
		}
		verifier, err := kp2.Verifier()
		if err != nil {
			perr = err
			ev["stage"] = "Verifier"
			return
		}
		msg := sha256.Sum256(bytesOf(c["d"]))
		sig, err := signer.Sign(rand.Reader, msg[:])
		if err != nil {
			perr = err
			ev["stage"] = "Sign"
			return
		}
		ev["sv"] = errClass(verifier.Verify(msg[:], sig))
		ev["stdv"] = stdVerify(int(signer.Algorithm()), priv.Public(), msg[:], sig)
	}); p != "" {
		ev["stage"] = "panic"
		ev["err"] = p
		return ev
	}
	if perr != nil {
		return fail(str(ev["stage"]), perr)
	}
	return ev
}

func init() {
	execs["keyrt"] = func(c J) J {
		if name := str(c["name"]); name != "" && c["d"] == nil {
			loadFixtures()
			if k, ok := ecKeys[name]; ok {
				c["d"] = anyInts(k.D.Bytes())
			} else if k, ok := edKeys[name]; ok {
				c["d"] = anyInts(k.Seed())
			} else {
				fatal("keyrt: unknown fixture %q", name)
			}
		}
		return keyRoundTrip(c)
	}
	// random and small scalars: about 1 key in 128 has a coordinate with a leading zero byte (1 in 2 on P-521)
	drivers["keyrt"] = func(seed int64, tier string) []J {
		r := mrand.New(mrand.NewSource(seed))
		n := map[string]int{"p256": 1500, "p384": 500, "p521": 200, "ed": 200}
		if tier == "thorough" {
			n = map[string]int{"p256": 40000, "p384": 8000, "p521": 3000, "ed": 3000}
		}
		var out []J
		for _, cn := range []string{"p256", "p384", "p521", "ed"} {
			for i := 0; i < n[cn]; i++ {
				var d []byte
				if cn == "ed" {
					d = make([]byte, 32)
					r.Read(d)
				} else if i%2 == 0 {
					d = big.NewInt(int64(1 + r.Intn(1<<24))).Bytes() // small scalars
				} else {
					c := curveByName(cn)
					size := (c.Params().BitSize + 7) / 8
					d = make([]byte, size)
					r.Read(d)
					v := new(big.Int).SetBytes(d)
					v.Mod(v, new(big.Int).Sub(c.Params().N, big.NewInt(1)))
					v.Add(v, big.NewInt(1))
					d = v.Bytes()
				}
				ex := J{"kid": i%3 == 0, "ops": []string{"-", "both"}[i%2], "baseiv": i%5 == 0, "extra": i%7 == 0, "dirty": i%4 == 1}
				out = append(out, J{"curve": cn, "d": anyInts(d), "extras": ex, "src": "driver"})
			}
		}
		return out
	}
}

func anyInts(b []byte) []any {
	out := make([]any, len(b))
	for i, x := range b {
		out[i] = float64(x)
	}
	return out
}
