package main

// memflow: a small interpreter for API programs emitted by the specification (or by drivers).
// A case is {"steps": [...]}; each step names a public operation and abstract arguments; the
// interpreter performs it on real objects and records result class, the signer/verifier/reader
// calls it caused, the returned bytes and the projected post-state of the object it touched.

import (
	"bytes"
	"crypto"
	cryptorand "crypto/rand"
	"crypto/sha256"
	"encoding/json"
	"errors"
	"fmt"
	"io"
	"sync"

	"github.com/fxamacker/cbor/v2"
	cose "github.com/veraison/go-cose"
)

type world struct {
	objs      map[string]any    // *cose.Sign1Message | *cose.UntaggedSign1Message | *cose.SignMessage | *cose.Signature | *cose.Countersignature | *cose.Key
	bufs      map[string][]byte // named byte buffers
	log       *spyLog
	mark      int
	ksigner   cose.Signer // KeyModel: the signer / verifier last obtained from the key object
	kverifier cose.Verifier
	flag      bool                     // set by a step with "setflag" (did it succeed?); steps with "ifflag" are skipped unless it is set
	vers      map[string]cose.Verifier // one verifier value per description (in a session: shared by all its cases)
}

func newWorld() *world {
	// one verifier value per description for the lifetime of the world (a program that verifies twice under the same key uses the
	// same Verifier, as an application would): whatever the library remembers per verifier between calls becomes observable
	return &world{objs: map[string]any{}, bufs: map[string][]byte{}, log: &spyLog{}, vers: map[string]cose.Verifier{}}
}

func (w *world) newCalls() []any {
	all := w.log.list()
	out := all[w.mark:]
	w.mark = len(all)
	if out == nil {
		return []any{}
	}
	return out
}

// ---- symbolic crypto for spies: a pseudo signature binds signer name and content
func pseudoSig(name string, content []byte) []byte {
	h := sha256.Sum256(append([]byte(name+"|"), content...))
	return append(append([]byte{0x5a}, []byte(name)...), h[:8]...)
}

type symSigner struct {
	name  string
	alg   cose.Algorithm
	fault string
	log   *spyLog
}

func (s *symSigner) Algorithm() cose.Algorithm {
	s.log.add(J{"who": s.name, "call": "Algorithm"})
	return s.alg
}

func (s *symSigner) Sign(rand io.Reader, content []byte) (ret []byte, err error) {
	defer func() {
		s.log.add(J{"who": s.name, "call": "Sign", "content": ints(content), "ret": rawJ(ret), "reterr": errClass(err), "fault": s.fault})
	}()
	switch s.fault {
	case "err":
		return nil, errInjected
	case "empty":
		return []byte{}, nil
	case "nil":
		return nil, nil
	case "bytes+err":
		return []byte{0xde, 0xad, 0xbe, 0xef}, errInjected
	case "panic":
		panic("injected signer panic")
	case "reenter":
		// a key that uses the library itself before it looks at its input (a notary checking or producing other messages first):
		// the input must still be what the library handed over
		reenterLibrary()
	}
	return pseudoSig(s.name, content), nil
}

type quietSigner struct{ alg cose.Algorithm }

func (q quietSigner) Algorithm() cose.Algorithm { return q.alg }
func (q quietSigner) Sign(_ io.Reader, content []byte) ([]byte, error) {
	return pseudoSig("quiet", content), nil
}

type quietVerifier struct{ alg cose.Algorithm }

func (q quietVerifier) Algorithm() cose.Algorithm { return q.alg }
func (q quietVerifier) Verify(content, sig []byte) error {
	if string(sig) != string(pseudoSig("quiet", content)) {
		return cose.ErrVerification
	}
	return nil
}

// reenterLibrary runs every signing and verifying entry point once on values of its own.
func reenterLibrary() {
	qs, qv := quietSigner{cose.AlgorithmES256}, quietVerifier{cose.AlgorithmES256}
	hdr := func() cose.Headers {
		return cose.Headers{Protected: cose.ProtectedHeader{cose.HeaderLabelAlgorithm: cose.AlgorithmES256, cose.HeaderLabelKeyID: []byte("another key identifier")},
			Unprotected: cose.UnprotectedHeader{}}
	}
	if b, err := cose.Sign1(nil, qs, hdr(), []byte("a different payload, a little longer than usual"), []byte("other external data")); err == nil {
		var m cose.Sign1Message
		if m.UnmarshalCBOR(b) == nil {
			_ = m.Verify([]byte("other external data"), qv)
			cs := &cose.Countersignature{Headers: hdr()}
			_ = cs.Sign(nil, qs, &m, nil)
			_ = cs.Verify(qv, m, nil)
			if z, err := cose.Countersign0(nil, qs, m, []byte("x")); err == nil {
				_ = cose.VerifyCountersign0(qv, &m, []byte("x"), z)
			}
		}
	}
	sm := &cose.SignMessage{Headers: hdr(), Payload: []byte("yet another payload"),
		Signatures: []*cose.Signature{{Headers: hdr()}, {Headers: hdr()}}}
	if sm.Sign(nil, nil, qs, qs) == nil {
		_ = sm.Verify(nil, qv, qv)
		_, _ = sm.MarshalCBOR()
	}
	_, _ = cose.SignHashEnvelope(nil, qs, hdr(), cose.HashEnvelopePayload{HashAlgorithm: cose.AlgorithmSHA256, HashValue: make([]byte, 32)})
}

type symVerifier struct {
	name  string
	alg   cose.Algorithm
	fault string // "", "err" (an error that is not ErrVerification), "accept" (accepts anything), "err1accept" (an outage on the first call, then accepts anything)
	log   *spyLog
	calls int
}

func (v *symVerifier) Algorithm() cose.Algorithm {
	v.log.add(J{"who": v.name, "call": "Algorithm"})
	return v.alg
}

func (v *symVerifier) Verify(content, signature []byte) error {
	if v.fault == "reenter" {
		reenterLibrary()
	}
	if v.fault == "panic" {
		v.log.add(J{"who": v.name, "call": "Verify", "content": ints(content), "sig": ints(signature), "valid": false, "reterr": "panic", "fault": v.fault})
		panic("injected verifier panic")
	}
	valid := string(signature) == string(pseudoSig(v.name, content))
	var err error
	v.calls++
	switch {
	case v.fault == "err" || (v.fault == "err1accept" && v.calls == 1):
		err = errInjectedVerify
	case v.fault == "err1accept":
		err = nil
	case v.fault == "accept" || valid:
		err = nil
	default:
		err = cose.ErrVerification
	}
	v.log.add(J{"who": v.name, "call": "Verify", "content": ints(content), "sig": ints(signature), "valid": valid, "reterr": errClass(err), "fault": v.fault})
	return err
}

// entropy source with a budget; logs reads
type budgetReader struct {
	budget int // -1 unlimited
	short  bool
	eof    bool // fail with io.EOF (a finite source that ran dry: a file, a pipe) instead of a custom error
	log    *spyLog
	mu     sync.Mutex
	ctr    byte
}

var errEntropy = errors.New("injected entropy failure")

func (r *budgetReader) Read(p []byte) (int, error) {
	r.mu.Lock()
	defer r.mu.Unlock()
	n := len(p)
	fail := r.budget >= 0 && (r.budget == 0 || (n > r.budget && !r.short))
	r.log.add(J{"who": "rand", "call": "Read", "n": len(p), "fail": fail})
	if r.budget >= 0 {
		if r.budget == 0 {
			if r.eof {
				return 0, io.EOF
			}
			return 0, errEntropy
		}
		if n > r.budget {
			n = r.budget
		}
		r.budget -= n
	}
	for i := 0; i < n; i++ {
		r.ctr = r.ctr*31 + 17
		p[i] = r.ctr
	}
	if n < len(p) {
		if r.short {
			return n, nil
		}
		if r.eof {
			return n, io.EOF
		}
		return n, errEntropy
	}
	return n, nil
}

func (w *world) signerOf(x any) cose.Signer {
	v := x.(map[string]any)
	alg := cose.Algorithm(num(v["alg"]))
	name := str(v["name"])
	switch str(v["kind"]) {
	case "sym":
		return &symSigner{name: name, alg: alg, fault: str(v["fault"]), log: w.log}
	case "builtin", "cosekey", "cryptosigner", "faultykey":
		keyName := str(v["key"])
		if keyName == "" {
			keyName = keyNameForAlg(int(alg), "a")
		}
		key := keyFor(keyName)
		var inner cose.Signer
		var err error
		switch str(v["kind"]) {
		case "faultykey":
			// a built-in signer over a key (HSM, KMS, agent) that fails: it returns an error, or an empty signature without an error
			inner, err = cose.NewSigner(alg, faultyKey{key, str(v["fault"])})
			if err != nil {
				fatal("signerOf %v: %v", v, err)
			}
			return &spySigner{name: name, alg: alg, inner: inner, fault: "", log: w.log}
		case "builtin":
			inner, err = cose.NewSigner(alg, key)
		case "cryptosigner":
			inner, err = cose.NewSigner(alg, opaqueSigner{key})
		case "cosekey":
			var k *cose.Key
			k, err = cose.NewKeyFromPrivate(key)
			if err == nil {
				var b []byte
				b, err = k.MarshalCBOR()
				if err == nil {
					var k2 cose.Key
					if err = k2.UnmarshalCBOR(b); err == nil {
						inner, err = k2.Signer()
					}
				}
			}
		}
		if err != nil {
			fatal("signerOf %v: %v", v, err)
		}
		return &spySigner{name: name, alg: alg, inner: inner, fault: str(v["fault"]), log: w.log}
	}
	fatal("signerOf: unknown kind %v", v["kind"])
	return nil
}

type faultyKey struct {
	inner crypto.Signer
	fault string
}

func (k faultyKey) Public() crypto.PublicKey { return k.inner.Public() }
func (k faultyKey) Sign(rand io.Reader, digest []byte, opts crypto.SignerOpts) ([]byte, error) {
	switch k.fault {
	case "err":
		return nil, errInjected
	case "empty":
		return []byte{}, nil
	case "nil":
		return nil, nil
	}
	return k.inner.Sign(rand, digest, opts)
}

// opaqueSigner hides the concrete key type (a crypto.Signer that is not *ecdsa.PrivateKey etc.)
type opaqueSigner struct{ inner crypto.Signer }

func (o opaqueSigner) Public() crypto.PublicKey { return o.inner.Public() }
func (o opaqueSigner) Sign(rand io.Reader, digest []byte, opts crypto.SignerOpts) ([]byte, error) {
	return o.inner.Sign(rand, digest, opts)
}

func (w *world) verifierOf(x any) cose.Verifier {
	if w.vers == nil {
		return w.makeVerifier(x)
	}
	k, _ := json.Marshal(x)
	if v, ok := w.vers[string(k)]; ok {
		return v
	}
	v := w.makeVerifier(x)
	w.vers[string(k)] = v
	return v
}

func (w *world) makeVerifier(x any) cose.Verifier {
	v := x.(map[string]any)
	alg := cose.Algorithm(num(v["alg"]))
	name := str(v["name"])
	switch str(v["kind"]) {
	case "sym":
		return &symVerifier{name: name, alg: alg, fault: str(v["fault"]), log: w.log}
	case "builtin", "cosekey":
		keyName := str(v["key"])
		if keyName == "" {
			keyName = keyNameForAlg(int(alg), "a")
		}
		key := keyFor(keyName)
		var inner cose.Verifier
		var err error
		if str(v["kind"]) == "builtin" {
			inner, err = cose.NewVerifier(alg, key.Public())
		} else {
			var k *cose.Key
			k, err = cose.NewKeyFromPublic(key.Public())
			if err == nil {
				var b []byte
				b, err = k.MarshalCBOR()
				if err == nil {
					var k2 cose.Key
					if err = k2.UnmarshalCBOR(b); err == nil {
						inner, err = k2.Verifier()
					}
				}
			}
		}
		if err != nil {
			fatal("verifierOf %v: %v", v, err)
		}
		return &spyVerifier{name: name, alg: alg, inner: inner, fault: str(v["fault"]), log: w.log}
	}
	fatal("verifierOf: unknown kind %v", v["kind"])
	return nil
}

func (w *world) readerOf(x any) io.Reader {
	if x == nil {
		return &budgetReader{budget: -1, log: w.log}
	}
	v := x.(map[string]any)
	b, _ := v["short"].(bool)
	e, _ := v["eof"].(bool)
	return &budgetReader{budget: num(v["budget"]), short: b, eof: e, log: w.log}
}

func extArg(st J) []byte {
	b := bytesOf(st["ext"])
	if a, ok := st["ext"].([]any); ok && len(a) == 4 {
		if f, ok := a[0].(float64); ok && f == -2 {
			return payloadOf(st["ext"]) // size token: long external data
		}
	}
	if nilext, _ := st["extnil"].(bool); nilext || b == nil {
		if len(b) == 0 {
			if e, ok := st["extempty"].(bool); ok && e {
				return []byte{}
			}
			return nil
		}
	}
	return b
}

// build an object from its abstract description
func buildObj(kind string, m J) any {
	switch kind {
	case "sign1":
		return &cose.Sign1Message{Headers: headersOf(m), Payload: payloadOf(m["payload"]), Signature: sigBytes(m["sig"])}
	case "sign1u":
		return &cose.UntaggedSign1Message{Headers: headersOf(m), Payload: payloadOf(m["payload"]), Signature: sigBytes(m["sig"])}
	case "sign":
		return &cose.SignMessage{Headers: headersOf(m), Payload: payloadOf(m["payload"]), Signatures: sigsOfFull(m["sigs"])}
	case "sig":
		s := sigObj(m)
		s.Signature = sigBytes(m["sig"])
		return s
	case "csig":
		s := sigObj(m)
		s.Signature = sigBytes(m["sig"])
		return (*cose.Countersignature)(s)
	}
	fatal("buildObj: kind %q", kind)
	return nil
}

// empty signature list entries stay nil (unsigned)
func sigBytes(v any) []byte {
	b := bytesOf(v)
	if len(b) == 0 {
		return nil
	}
	return b
}

func sigsOfFull(v any) []*cose.Signature {
	xs, _ := v.([]any)
	if xs == nil {
		return nil
	}
	out := make([]*cose.Signature, len(xs))
	for i, x := range xs {
		s := sigObj(x)
		s.Signature = sigBytes(x.(map[string]any)["sig"])
		out[i] = s
	}
	return out
}

var errNoHandle = errors.New("nohandle")

func keyFixtureName(kty, pair string) string {
	if kty == "EC2" {
		return "p256-" + pair
	}
	return map[string]string{"a": "ed0", "b": "ed1"}[pair]
}

// projectKey: the abstract view of a COSE_Key object (which fixture pair its public part belongs to, whether a private part is there)
func projectKey(k *cose.Key) J {
	ops := []any{}
	for _, o := range k.Ops {
		ops = append(ops, int(o))
	}
	pair := "?"
	kty := map[cose.KeyType]string{cose.KeyTypeEC2: "EC2", cose.KeyTypeOKP: "OKP"}[k.Type]
	for _, p := range []string{"a", "b"} {
		if kty == "" {
			break
		}
		ref, err := cose.NewKeyFromPublic(keyFor(keyFixtureName(kty, p)).Public())
		if err != nil {
			continue
		}
		x1, _ := k.ParamBytes(cose.KeyLabelEC2X)
		x2, _ := ref.ParamBytes(cose.KeyLabelEC2X)
		if len(x1) > 0 && bytes.Equal(bytes.TrimLeft(x1, "\x00"), bytes.TrimLeft(x2, "\x00")) {
			pair = p
		}
	}
	d, _ := k.ParamBytes(cose.KeyLabelEC2D)
	return J{"kty": kty, "pair": pair, "hasd": len(d) > 0, "alg": int(k.Algorithm), "opsnil": k.Ops == nil, "ops": ops}
}

func projectObj(o any) J {
	switch v := o.(type) {
	case *cose.Key:
		return projectKey(v)
	case *cose.Sign1Message:
		return projectSign1(v)
	case *cose.UntaggedSign1Message:
		return projectSign1((*cose.Sign1Message)(v))
	case *cose.SignMessage:
		return projectSign(v)
	case *cose.Signature:
		return projectSig(v)
	case *cose.Countersignature:
		return projectSig((*cose.Signature)(v))
	case *cose.ProtectedHeader:
		return J{"P": projectBucket(*v), "Pnil": *v == nil}
	case *cose.UnprotectedHeader:
		return J{"U": projectBucket(*v), "Unil": *v == nil}
	}
	return J{"unknown": fmt.Sprintf("%T", o)}
}

func marshalObj(o any) ([]byte, error) {
	switch v := o.(type) {
	case *cose.Sign1Message:
		return v.MarshalCBOR()
	case *cose.UntaggedSign1Message:
		return v.MarshalCBOR()
	case *cose.SignMessage:
		return v.MarshalCBOR()
	case *cose.Signature:
		return v.MarshalCBOR()
	case *cose.Countersignature:
		return v.MarshalCBOR()
	case *cose.ProtectedHeader:
		return v.MarshalCBOR()
	case *cose.UnprotectedHeader:
		return v.MarshalCBOR()
	}
	return nil, fmt.Errorf("marshalObj: %T", o)
}

func newOfKind(kind string) any {
	switch kind {
	case "sign1":
		return &cose.Sign1Message{}
	case "sign1u":
		return &cose.UntaggedSign1Message{}
	case "sign":
		return &cose.SignMessage{}
	case "sig":
		return &cose.Signature{}
	case "csig":
		return &cose.Countersignature{}
	case "prot":
		return &cose.ProtectedHeader{}
	case "unprot":
		return &cose.UnprotectedHeader{}
	}
	fatal("newOfKind %q", kind)
	return nil
}

func unmarshalInto(o any, b []byte) error {
	switch v := o.(type) {
	case *cose.Sign1Message:
		return viaRecv(b, v.UnmarshalCBOR)
	case *cose.UntaggedSign1Message:
		return viaRecv(b, v.UnmarshalCBOR)
	case *cose.SignMessage:
		return viaRecv(b, v.UnmarshalCBOR)
	case *cose.Signature:
		return viaRecv(b, v.UnmarshalCBOR)
	case *cose.Countersignature:
		return viaRecv(b, v.UnmarshalCBOR)
	case *cose.ProtectedHeader:
		return viaRecv(b, v.UnmarshalCBOR)
	case *cose.UnprotectedHeader:
		return viaRecv(b, v.UnmarshalCBOR)
	}
	return fmt.Errorf("unmarshalInto: %T", o)
}

// parent argument of countersignature calls: pointer or value form
func parentArg(o any, form string) any {
	if form != "val" {
		if u, ok := o.(*cose.UntaggedSign1Message); ok {
			return (*cose.Sign1Message)(u)
		}
		return o
	}
	switch v := o.(type) {
	case *cose.Sign1Message:
		return *v
	case *cose.UntaggedSign1Message:
		return cose.Sign1Message(*v)
	case *cose.SignMessage:
		return *v
	case *cose.Signature:
		return *v
	case *cose.Countersignature:
		return *v
	}
	return o
}

func (w *world) step(st J) J {
	op := str(st["op"])
	obs := J{"op": op, "obj": str(st["obj"])}
	var err error
	name := str(st["obj"])
	if st["ifflag"] == true && !w.flag {
		op = "probe" // the step depends on an earlier one that failed: nothing is done, the state is reported
		obs["skipped"] = true
	}
	panicked := guard(func() {
		switch op {
		case "new":
			w.objs[name] = buildObj(str(st["kind"]), st["m"].(map[string]any))
		case "sign":
			signers := []cose.Signer{}
			for _, s := range st["signers"].([]any) {
				signers = append(signers, w.signerOf(s))
			}
			rnd := w.readerOf(st["rand"])
			switch o := w.objs[name].(type) {
			case *cose.Sign1Message:
				err = o.Sign(rnd, extArg(st), signers[0])
			case *cose.UntaggedSign1Message:
				err = o.Sign(rnd, extArg(st), signers[0])
			case *cose.SignMessage:
				err = o.Sign(rnd, extArg(st), signers...)
			case *cose.Signature:
				err = o.Sign(rnd, signers[0], bytesOf(st["bodyprot"]), payloadOf(st["payload"]), extArg(st))
			default:
				fatal("sign on %T", o)
			}
		case "verify":
			verifiers := []cose.Verifier{}
			for _, s := range st["verifiers"].([]any) {
				verifiers = append(verifiers, w.verifierOf(s))
			}
			switch o := w.objs[name].(type) {
			case *cose.Sign1Message:
				err = o.Verify(extArg(st), verifiers[0])
			case *cose.UntaggedSign1Message:
				err = o.Verify(extArg(st), verifiers[0])
			case *cose.SignMessage:
				err = o.Verify(extArg(st), verifiers...)
			case *cose.Signature:
				err = o.Verify(verifiers[0], bytesOf(st["bodyprot"]), payloadOf(st["payload"]), extArg(st))
			default:
				fatal("verify on %T", o)
			}
		case "keynew":
			priv := keyFor(keyFixtureName(str(st["kty"]), str(st["pair"])))
			var k *cose.Key
			if st["priv"] == true {
				k, err = cose.NewKeyFromPrivate(priv)
			} else {
				k, err = cose.NewKeyFromPublic(priv.Public())
			}
			if err == nil {
				w.objs[name] = k
			}
		case "keyedit":
			k := w.objs[name].(*cose.Key)
			switch str(st["what"]) {
			case "alg":
				switch str(st["v"]) {
				case "none":
					k.Algorithm = cose.AlgorithmReserved
				case "ok":
					if k.Type == cose.KeyTypeEC2 {
						k.Algorithm = cose.AlgorithmES256
					} else {
						k.Algorithm = cose.AlgorithmEdDSA
					}
				default:
					k.Algorithm = cose.AlgorithmES384 // contradicts P-256 and Ed25519 alike
				}
			case "ops":
				k.Ops = map[string][]cose.KeyOp{"absent": nil, "empty": {}, "sign": {cose.KeyOpSign}, "verify": {cose.KeyOpVerify},
					"both": {cose.KeyOpVerify, cose.KeyOpSign}, "other": {cose.KeyOpEncrypt, cose.KeyOpMACCreate}}[str(st["v"])]
			case "dropd":
				delete(k.Params, cose.KeyLabelEC2D) // (the OKP private label has the same value)
			}
		case "keymarshal":
			var b []byte
			b, err = w.objs[name].(*cose.Key).MarshalCBOR()
			if err == nil {
				w.bufs[str(st["buf"])] = b
			}
			obs["out"] = rawJ(b)
			obs["outnil"] = b == nil
		case "keyunmarshal":
			err = w.objs[name].(*cose.Key).UnmarshalCBOR(w.bufs[str(st["buf"])])
		case "keysigner":
			var s cose.Signer
			s, err = w.objs[name].(*cose.Key).Signer()
			if err == nil {
				w.ksigner = s
			}
		case "keyverifier":
			var v cose.Verifier
			v, err = w.objs[name].(*cose.Key).Verifier()
			if err == nil {
				w.kverifier = v
			}
		case "keysign":
			if w.ksigner == nil {
				err = errNoHandle
			} else {
				var b []byte
				b, err = w.ksigner.Sign(cryptorand.Reader, []byte("message for the key model"))
				if err == nil {
					w.bufs["ksig"] = b
				}
			}
		case "keyverify":
			if w.kverifier == nil || w.bufs["ksig"] == nil {
				err = errNoHandle
			} else {
				err = w.kverifier.Verify([]byte("message for the key model"), w.bufs["ksig"])
			}
		case "slotsetalg":
			// caller edits the parsed protected map of one COSE_Signature of a COSE_Sign (retained raw bytes, if any, stay)
			sg := w.objs[name].(*cose.SignMessage).Signatures[num(st["slot"])]
			if sg.Headers.Protected == nil {
				sg.Headers.Protected = cose.ProtectedHeader{}
			}
			if st["absent"] == true {
				delete(sg.Headers.Protected, cose.HeaderLabelAlgorithm)
			} else {
				sg.Headers.Protected[cose.HeaderLabelAlgorithm] = cose.Algorithm(num(st["alg"]))
			}
		case "slotclearraw":
			sg := w.objs[name].(*cose.SignMessage).Signatures[num(st["slot"])]
			sg.Headers.RawProtected, sg.Headers.RawUnprotected = nil, nil
		case "nilslot":
			w.objs[name].(*cose.SignMessage).Signatures[num(st["slot"])] = nil
		case "marshal":
			var b []byte
			b, err = marshalObj(w.objs[name])
			w.bufs[str(st["buf"])] = b
			obs["out"] = rawJ(b)
			obs["outnil"] = b == nil
		case "unmarshal":
			o, ok := w.objs[name]
			if !ok || st["fresh"] == true {
				o = newOfKind(str(st["kind"]))
				w.objs[name] = o
			}
			b := w.bufs[str(st["buf"])]
			if raw, ok := st["bytes"]; ok {
				b = bytesOf(raw)
				w.bufs[str(st["buf"])] = b
			}
			err = unmarshalInto(o, b)
			// reference: the same bytes decoded into a fresh variable (history-freedom is judged against it)
			obs["fresh"] = J{}
			obs["freshres"] = "n/a"
			if st["withfresh"] == true {
				f := newOfKind(str(st["kind"]))
				cp := append([]byte{}, b...)
				ferr := unmarshalInto(f, cp)
				obs["freshres"] = okErr(ferr)
				if ferr == nil {
					obs["fresh"] = projectObj(f)
				}
			}
		case "zero":
			w.objs[name] = newOfKind(str(st["kind"]))
		case "setpayload":
			p := payloadOf(st["payload"])
			switch o := w.objs[name].(type) {
			case *cose.Sign1Message:
				o.Payload = p
			case *cose.UntaggedSign1Message:
				o.Payload = p
			case *cose.SignMessage:
				o.Payload = p
			}
		case "sign1helper", "sign1untaggedhelper":
			signer := w.signerOf(st["signers"].([]any)[0])
			h := headersOf(st["m"])
			var b []byte
			if op == "sign1helper" {
				b, err = cose.Sign1(w.readerOf(st["rand"]), signer, h, payloadOf(st["m"].(map[string]any)["payload"]), extArg(st))
			} else {
				b, err = cose.Sign1Untagged(w.readerOf(st["rand"]), signer, h, payloadOf(st["m"].(map[string]any)["payload"]), extArg(st))
			}
			w.bufs[str(st["buf"])] = b
			obs["out"] = rawJ(b)
			obs["outnil"] = b == nil
			obs["hdrpost"] = projectHeaders(h)
		case "countersign":
			cs := w.objs[name].(*cose.Countersignature)
			signer := w.signerOf(st["signers"].([]any)[0])
			err = cs.Sign(w.readerOf(st["rand"]), signer, parentArg(w.objs[str(st["parent"])], str(st["form"])), extArg(st))
		case "verifycs":
			cs := w.objs[name].(*cose.Countersignature)
			v := w.verifierOf(st["verifiers"].([]any)[0])
			err = cs.Verify(v, parentArg(w.objs[str(st["parent"])], str(st["form"])), extArg(st))
		case "countersign0":
			signer := w.signerOf(st["signers"].([]any)[0])
			var b []byte
			b, err = cose.Countersign0(w.readerOf(st["rand"]), signer, parentArg(w.objs[str(st["parent"])], str(st["form"])), extArg(st))
			w.bufs[str(st["buf"])] = b
			obs["out"] = rawJ(b)
			obs["outnil"] = b == nil
		case "verifycs0":
			v := w.verifierOf(st["verifiers"].([]any)[0])
			err = cose.VerifyCountersign0(v, parentArg(w.objs[str(st["parent"])], str(st["form"])), extArg(st), w.bufs[str(st["buf"])])
		case "attachcs":
			// store countersignature object / abbreviated countersignature bytes in the parent's unprotected bucket
			lbl := int64(num(st["label"]))
			var val any
			if b, ok := st["buf"]; ok {
				val = append([]byte{}, w.bufs[str(b)]...)
			} else if names, ok := st["css"].([]any); ok {
				var list []*cose.Countersignature
				for _, n := range names {
					list = append(list, w.objs[str(n)].(*cose.Countersignature))
				}
				val = list
			} else {
				val = w.objs[str(st["cs"])].(*cose.Countersignature)
			}
			switch o := w.objs[name].(type) {
			case *cose.Sign1Message:
				if o.Headers.Unprotected == nil {
					o.Headers.Unprotected = cose.UnprotectedHeader{}
				}
				o.Headers.Unprotected[lbl] = val
				o.Headers.RawUnprotected = nil
			case *cose.SignMessage:
				if o.Headers.Unprotected == nil {
					o.Headers.Unprotected = cose.UnprotectedHeader{}
				}
				o.Headers.Unprotected[lbl] = val
				o.Headers.RawUnprotected = nil
			case *cose.Signature:
				if o.Headers.Unprotected == nil {
					o.Headers.Unprotected = cose.UnprotectedHeader{}
				}
				o.Headers.Unprotected[lbl] = val
				o.Headers.RawUnprotected = nil
			case *cose.Countersignature:
				if o.Headers.Unprotected == nil {
					o.Headers.Unprotected = cose.UnprotectedHeader{}
				}
				o.Headers.Unprotected[lbl] = val
				o.Headers.RawUnprotected = nil
			}
		case "extractcs":
			// take a decoded countersignature object out of the unprotected bucket of a decoded parent
			var u cose.UnprotectedHeader
			switch o := w.objs[str(st["from"])].(type) {
			case *cose.Sign1Message:
				u = o.Headers.Unprotected
			case *cose.SignMessage:
				u = o.Headers.Unprotected
			case *cose.Signature:
				u = o.Headers.Unprotected
			case *cose.Countersignature:
				u = o.Headers.Unprotected
			}
			switch v := u[int64(num(st["label"]))].(type) {
			case *cose.Countersignature:
				w.objs[name] = v
			case []*cose.Countersignature:
				w.objs[name] = v[num(st["index"])]
			default:
				err = fmt.Errorf("no countersignature under label %v: %T", st["label"], v)
			}
		case "extractcs0":
			var u cose.UnprotectedHeader
			switch o := w.objs[str(st["from"])].(type) {
			case *cose.Sign1Message:
				u = o.Headers.Unprotected
			case *cose.SignMessage:
				u = o.Headers.Unprotected
			case *cose.Signature:
				u = o.Headers.Unprotected
			case *cose.Countersignature:
				u = o.Headers.Unprotected
			}
			if b, ok := u[int64(num(st["label"]))].([]byte); ok {
				w.bufs[str(st["buf"])] = b
			} else {
				err = fmt.Errorf("no abbreviated countersignature under label %v", st["label"])
			}
		case "signhashenv":
			signer := w.signerOf(st["signers"].([]any)[0])
			h := headersOf(st["m"])
			hp := st["hp"].(map[string]any)
			pl := cose.HashEnvelopePayload{HashAlgorithm: cose.Algorithm(num(hp["alg"])), HashValue: bytesOf(hp["hash"]), Location: string(bytesOf(hp["loc"]))}
			if hp["hashnil"] == true {
				pl.HashValue = nil
			} else if pl.HashValue == nil {
				pl.HashValue = []byte{}
			}
			if hp["algval"] != nil {
				// the hash algorithm is always of type Algorithm in the payload struct; algval only documents the case
			}
			if pct, ok := hp["pct"]; ok && pct != nil {
				if pm, ok := pct.(map[string]any); ok && str(pm["t"]) != "absent" {
					pl.PreimageContentType = goVal(pct)
				}
			}
			var b []byte
			b, err = cose.SignHashEnvelope(w.readerOf(st["rand"]), signer, h, pl)
			w.bufs[str(st["buf"])] = b
			obs["out"] = rawJ(b)
			obs["outnil"] = b == nil
			obs["hdrpost"] = projectHeaders(h)
		case "verifyhashenv":
			v := w.verifierOf(st["verifiers"].([]any)[0])
			b := w.bufs[str(st["buf"])]
			if raw, ok := st["bytes"]; ok {
				b = bytesOf(raw)
			}
			var msg *cose.Sign1Message
			err = viaRecv(b, func(x []byte) error { var e error; msg, e = cose.VerifyHashEnvelope(v, x); return e })
			obs["msgnil"] = msg == nil
			if st["keep"] == true {
				// life-cycle programs: the object is replaced only by a message handed out without an error
				if msg != nil && err == nil {
					w.objs[name] = msg
				}
			} else if msg != nil {
				w.objs[name] = msg
			} else {
				delete(w.objs, name)
			}
		case "setsig":
			// environment step: overwrite a signature field (transplant / corruption)
			b := sigBytes(st["sig"])
			if st["nonnil"] == true && b == nil {
				b = []byte{}
			}
			if from, ok := st["frombuf"]; ok {
				b = append([]byte{}, w.bufs[str(from)]...)
			}
			if fs, ok := st["fromslot"]; ok {
				if sm, ok := w.objs[name].(*cose.SignMessage); ok {
					b = append([]byte{}, sm.Signatures[num(fs)].Signature...)
				}
			}
			switch o := w.objs[name].(type) {
			case *cose.Sign1Message:
				o.Signature = b
			case *cose.UntaggedSign1Message:
				o.Signature = b
			case *cose.Signature:
				o.Signature = b
			case *cose.Countersignature:
				o.Signature = b
			case *cose.SignMessage:
				o.Signatures[num(st["slot"])].Signature = b
			}
		case "setprot":
			// environment step: replace the protected bucket (and drop raw bytes) of an object
			h := headersOf(st["m"])
			switch o := w.objs[name].(type) {
			case *cose.Sign1Message:
				o.Headers.Protected, o.Headers.RawProtected = h.Protected, h.RawProtected
			case *cose.SignMessage:
				o.Headers.Protected, o.Headers.RawProtected = h.Protected, h.RawProtected
			case *cose.Signature:
				o.Headers.Protected, o.Headers.RawProtected = h.Protected, h.RawProtected
			case *cose.Countersignature:
				o.Headers.Protected, o.Headers.RawProtected = h.Protected, h.RawProtected
			}
		case "setunprot":
			h := headersOf(st["m"])
			switch o := w.objs[name].(type) {
			case *cose.Sign1Message:
				o.Headers.Unprotected, o.Headers.RawUnprotected = h.Unprotected, nil
			case *cose.SignMessage:
				o.Headers.Unprotected, o.Headers.RawUnprotected = h.Unprotected, nil
			case *cose.Signature:
				o.Headers.Unprotected, o.Headers.RawUnprotected = h.Unprotected, nil
			case *cose.Countersignature:
				o.Headers.Unprotected, o.Headers.RawUnprotected = h.Unprotected, nil
			}
		case "getsig":
			// copy the object's signature bytes into a buffer (environment step for replay attempts)
			switch o := w.objs[name].(type) {
			case *cose.Sign1Message:
				w.bufs[str(st["buf"])] = append([]byte{}, o.Signature...)
			case *cose.Signature:
				w.bufs[str(st["buf"])] = append([]byte{}, o.Signature...)
			case *cose.Countersignature:
				w.bufs[str(st["buf"])] = append([]byte{}, o.Signature...)
			}
		case "setalg":
			// caller edits the parsed protected map (retained raw bytes, if any, stay)
			if h := headersPtr(w.objs[name]); h != nil {
				if h.Protected == nil {
					h.Protected = cose.ProtectedHeader{}
				}
				if st["absent"] == true {
					delete(h.Protected, cose.HeaderLabelAlgorithm)
				} else {
					h.Protected[cose.HeaderLabelAlgorithm] = cose.Algorithm(num(st["alg"]))
				}
			}
		case "setkid":
			if h := headersPtr(w.objs[name]); h != nil {
				if h.Unprotected == nil {
					h.Unprotected = cose.UnprotectedHeader{}
				}
				h.Unprotected[cose.HeaderLabelKeyID] = bytesOf(st["kid"])
			}
		case "clearraw":
			if h := headersPtr(w.objs[name]); h != nil {
				h.RawProtected, h.RawUnprotected = nil, nil
			}
		case "rewire":
			// the environment rewrites one element of the COSE_Sign1 array held in a buffer (bytes in transit)
			b := w.bufs[str(st["buf"])]
			if nb, ok := rewire(b, num(st["idx"]), st); ok {
				w.bufs[str(st["buf"])] = nb
				obs["out"] = rawJ(nb)
				obs["outnil"] = nb == nil
			} else {
				obs["out"] = rawJ(b)
				obs["outnil"] = b == nil
			}
		case "peek":
			// no operation: reports the content of a buffer
			b := w.bufs[str(st["buf"])]
			obs["out"] = rawJ(b)
			obs["outnil"] = b == nil
		case "probe":
			// no operation: only reports the projected state of the object
		case "scribble":
			b := w.bufs[str(st["buf"])]
			for i := range b {
				b[i] ^= 0xff
			}
		default:
			fatal("unknown step op %q", op)
		}
	})
	if panicked != "" {
		obs["res"] = "panic"
		obs["panic"] = panicked
	} else {
		obs["res"] = errClass(err)
	}
	if st["setflag"] == true {
		w.flag = panicked == "" && err == nil
	}
	obs["calls"] = w.newCalls()
	if o, ok := w.objs[name]; ok && name != "" {
		obs["post"] = projectObj(o)
	}
	if _, ok := obs["out"]; !ok {
		obs["out"] = []int{}
		obs["outnil"] = true
	}
	return obs
}

func init() {
	// a session: several cases run one after the other in one world that keeps its verifiers (and whatever the library
	// keeps between calls); objects and buffers are dropped between cases.  Every case yields its own event.
	execs["memflow-session"] = func(c J) J {
		w := newWorld()
		evs := []any{}
		for _, cc := range c["session"].([]any) {
			sub := cc.(map[string]any)
			w.objs, w.bufs = map[string]any{}, map[string][]byte{}
			steps, _ := sub["steps"].([]any)
			obs := make([]any, 0, len(steps))
			for _, s := range steps {
				obs = append(obs, w.step(s.(map[string]any)))
			}
			ev := J{}
			for k, v := range sub {
				ev[k] = v
			}
			ev["op"], ev["obs"] = "memflow", obs
			evs = append(evs, ev)
		}
		return J{"op": "memflow-session", "events": evs}
	}
	execs["memflow"] = func(c J) J {
		w := newWorld()
		steps, _ := c["steps"].([]any)
		obs := make([]any, 0, len(steps))
		for _, s := range steps {
			obs = append(obs, w.step(s.(map[string]any)))
		}
		ev := J{}
		for k, v := range c {
			ev[k] = v
		}
		ev["op"], ev["obs"] = "memflow", obs
		return ev
	}
}

// rewire replaces element idx of a tagged COSE_Sign1 array by the given raw encoding ("elem"), or re-spells the
// length prefix of a bstr element at the given width ("width": 0 = shortest, 1, 2, 4, 8).
func rewire(b []byte, idx int, st J) ([]byte, bool) {
	var prefix []byte
	switch {
	case len(b) >= 2 && b[0] == 0xd2 && b[1] == 0x84:
		prefix = []byte{0xd2, 0x84}
	case len(b) >= 1 && (b[0] == 0x84 || b[0] == 0x83):
		prefix = []byte{b[0]}
	default:
		return nil, false
	}
	var elems []cbor.RawMessage
	if err := cbor.Unmarshal(b[len(prefix)-1:], &elems); err != nil || len(elems) != int(prefix[len(prefix)-1]&0x1f) {
		return nil, false
	}
	if e, ok := st["elem"]; ok {
		elems[idx] = bytesOf(e)
	} else if wv, ok := st["width"]; ok {
		var content []byte
		if err := cbor.Unmarshal(elems[idx], &content); err != nil {
			return nil, false
		}
		n := len(content)
		var head []byte
		switch num(wv) {
		case 0:
			head, _ = cbor.Marshal(content)
			head = head[:len(head)-n]
		case 1:
			head = []byte{0x58, byte(n)}
		case 2:
			head = []byte{0x59, byte(n >> 8), byte(n)}
		case 4:
			head = []byte{0x5a, 0, 0, byte(n >> 8), byte(n)}
		case 8:
			head = []byte{0x5b, 0, 0, 0, 0, 0, 0, byte(n >> 8), byte(n)}
		}
		elems[idx] = append(append([]byte{}, head...), content...)
	}
	out := append([]byte{}, prefix...)
	for _, e := range elems {
		out = append(out, e...)
	}
	return out, true
}

func headersPtr(o any) *cose.Headers {
	switch v := o.(type) {
	case *cose.Sign1Message:
		return &v.Headers
	case *cose.UntaggedSign1Message:
		return &v.Headers
	case *cose.SignMessage:
		return &v.Headers
	case *cose.Signature:
		return &v.Headers
	case *cose.Countersignature:
		return &v.Headers
	}
	return nil
}
