package main

// C18: replay of TLC-generated schedules with goroutines gated at the only yield point the public API
// offers (the user-supplied Verifier.Verify / Signer.Sign callback), and an ungated stress run for the
// race detector (`go build -race`).  Shared values deliberately carry non-normalised Go types
// (alg as int64, labels as int) so that a caching / normalising write changes their projection.

import (
	"bytes"
	"crypto/rand"
	"crypto/sha256"
	"encoding/hex"
	"encoding/json"
	"fmt"
	"io"
	"runtime"
	"sync"
	"sync/atomic"
	"time"

	cose "github.com/veraison/go-cose"
)

type concWorld struct {
	msg       *cose.Sign1Message
	smsg      *cose.SignMessage
	cs        *cose.Countersignature
	cs0       []byte
	envelope  []byte
	key       *cose.Key
	verifier  cose.Verifier
	signer    cose.Signer
	seqOut    map[string][]byte
	bsigner   cose.Signer
	bverifier cose.Verifier
}

// gate shared by the gated verifier/signer: who is calling, rendezvous channels
type gate struct {
	enabled bool
	caller  int
	reached chan int
	resume  []chan struct{}
	mu      sync.Mutex
	stable  []bool // content unchanged while the callback was blocked
}

type gatedVerifier struct {
	name string
	alg  cose.Algorithm
	g    *gate
}

func (v *gatedVerifier) Algorithm() cose.Algorithm { return v.alg }
func (v *gatedVerifier) Verify(content, signature []byte) error {
	if v.g != nil && v.g.enabled {
		t := v.g.caller
		entry := append([]byte{}, content...)
		v.g.reached <- t
		<-v.g.resume[t]
		v.g.mu.Lock()
		v.g.stable = append(v.g.stable, bytes.Equal(entry, content))
		v.g.mu.Unlock()
	}
	if string(signature) == string(pseudoSig(v.name, content)) {
		return nil
	}
	return cose.ErrVerification
}

type gatedSigner struct {
	name string
	alg  cose.Algorithm
	g    *gate
}

func (s *gatedSigner) Algorithm() cose.Algorithm { return s.alg }
func (s *gatedSigner) Sign(_ io.Reader, content []byte) ([]byte, error) {
	if s.g != nil && s.g.enabled {
		t := s.g.caller
		entry := append([]byte{}, content...)
		s.g.reached <- t
		<-s.g.resume[t]
		s.g.mu.Lock()
		s.g.stable = append(s.g.stable, bytes.Equal(entry, content))
		s.g.mu.Unlock()
	}
	return pseudoSig(s.name, content), nil
}

// newConcWorld builds the shared values; the sequential reference outputs come from a twin world, so that the shared
// values have not been through any call (a first call that writes to its receiver must be visible) when the threads start.
func newConcWorld(g *gate, decoded bool) *concWorld {
	w := buildConcWorld(g, decoded)
	ref := buildConcWorld(nil, decoded)
	for _, op := range []string{"marshal", "marshalsign", "keymarshal", "marshalcs"} {
		out, _ := ref.run(0, op)
		w.seqOut[op] = out
	}
	return w
}

func buildConcWorld(g *gate, decoded bool) *concWorld {
	w := &concWorld{seqOut: map[string][]byte{}}
	plain := &gatedSigner{name: "k", alg: cose.AlgorithmES256}
	w.signer = &gatedSigner{name: "k", alg: cose.AlgorithmES256, g: g}
	w.verifier = &gatedVerifier{name: "k", alg: cose.AlgorithmES256, g: g}
	w.msg = &cose.Sign1Message{
		Headers: cose.Headers{
			Protected:   cose.ProtectedHeader{int64(1): int64(-7), int(3): "a/b"},
			Unprotected: cose.UnprotectedHeader{int(4): []byte("kid")},
		},
		Payload: []byte("payload"),
	}
	must(w.msg.Sign(nil, nil, plain))
	w.smsg = &cose.SignMessage{
		Headers: cose.Headers{Protected: cose.ProtectedHeader{int(3): uint8(0)}, Unprotected: cose.UnprotectedHeader{}},
		Payload: []byte("p2"),
		Signatures: []*cose.Signature{
			{Headers: cose.Headers{Protected: cose.ProtectedHeader{int64(1): int64(-7)}, Unprotected: cose.UnprotectedHeader{int64(4): []byte("a")}}},
			{Headers: cose.Headers{Protected: cose.ProtectedHeader{int8(1): int16(-7)}}},
		},
	}
	must(w.smsg.Sign(nil, nil, plain, plain))
	w.cs = &cose.Countersignature{Headers: cose.Headers{Protected: cose.ProtectedHeader{int(1): int32(-7)}, Unprotected: cose.UnprotectedHeader{}}}
	must(w.cs.Sign(nil, plain, w.msg, nil))
	var err error
	w.cs0, err = cose.Countersign0(nil, plain, w.msg, nil)
	must(err)
	w.envelope, err = cose.SignHashEnvelope(nil, plain, cose.Headers{Protected: cose.ProtectedHeader{int(4): []byte("k")}},
		cose.HashEnvelopePayload{HashAlgorithm: cose.AlgorithmSHA256, HashValue: make([]byte, 32), Location: "loc"})
	must(err)
	w.key, err = cose.NewKeyFromPrivate(keyFor("p256-zx1")) // x has a leading zero byte: MarshalCBOR must pad it without touching the key
	must(err)
	w.bsigner, err = cose.NewSigner(cose.AlgorithmES256, keyFor("p256-a"))
	must(err)
	w.bverifier, err = cose.NewVerifier(cose.AlgorithmES256, keyFor("p256-a").Public())
	must(err)
	if decoded {
		b, err := w.msg.MarshalCBOR()
		must(err)
		if wide, ok := rewire(b, 0, J{"width": float64(2)}); ok {
			b = wide // a peer may spell the protected bstr length prefix non-minimally
		}
		var m2 cose.Sign1Message
		must(m2.UnmarshalCBOR(b))
		w.msg = &m2
		b, err = w.smsg.MarshalCBOR()
		must(err)
		var s2 cose.SignMessage
		must(s2.UnmarshalCBOR(b))
		w.smsg = &s2
	}
	return w
}

func must(err error) {
	if err != nil {
		fatal("conc setup: %v", err)
	}
}

// run one operation of thread t; returns bytes (for encoders) and the result class
func (w *concWorld) run(t int, op string) ([]byte, string) {
	switch op {
	case "verify":
		return nil, errClass(w.msg.Verify(nil, w.verifier))
	case "verifysign":
		return nil, errClass(w.smsg.Verify(nil, w.verifier, w.verifier))
	case "marshal":
		b, err := w.msg.MarshalCBOR()
		return b, errClass(err)
	case "marshalsign":
		b, err := w.smsg.MarshalCBOR()
		return b, errClass(err)
	case "marshalcs":
		b, err := w.cs.MarshalCBOR()
		return b, errClass(err)
	case "verifycs":
		return nil, errClass(w.cs.Verify(w.verifier, w.msg, nil))
	case "verifycs0":
		return nil, errClass(cose.VerifyCountersign0(w.verifier, *w.msg, nil, w.cs0))
	case "verifyhenv":
		_, err := cose.VerifyHashEnvelope(w.verifier, w.envelope)
		return nil, errClass(err)
	case "keyverifier":
		_, err := w.key.Verifier()
		return nil, errClass(err)
	case "keymarshal":
		b, err := w.key.MarshalCBOR()
		return b, errClass(err)
	case "verifybuiltin", "signbuiltin":
		// built-in ES256 signer / verifier shared by all goroutines, each on its own message
		own := &cose.Sign1Message{Headers: cose.Headers{Protected: cose.ProtectedHeader{int64(1): cose.AlgorithmES256}}, Payload: []byte{byte(t), 9, 9, byte(t >> 8)}}
		if err := own.Sign(rand.Reader, nil, w.bsigner); err != nil {
			return nil, errClass(err)
		}
		return nil, errClass(own.Verify(nil, w.bverifier))
	case "verifyfailown":
		// a COSE_Sign of the thread's own whose first signature is wrong: once Verify has returned (with an error) the message is the
		// caller's again - it repairs the signature, verifies, and damages it again
		own := &cose.SignMessage{Headers: cose.Headers{Protected: cose.ProtectedHeader{int64(3): int64(0)}}, Payload: []byte{byte(t), 7, 7},
			Signatures: []*cose.Signature{{Headers: cose.Headers{Protected: cose.ProtectedHeader{int64(1): cose.AlgorithmES256}}},
				{Headers: cose.Headers{Protected: cose.ProtectedHeader{int64(1): cose.AlgorithmES256}}},
				{Headers: cose.Headers{Protected: cose.ProtectedHeader{int64(1): cose.AlgorithmES256}}}}}
		if err := own.Sign(rand.Reader, nil, w.bsigner, w.bsigner, w.bsigner); err != nil {
			return nil, errClass(err)
		}
		for round := 0; round < 3; round++ {
			own.Signatures[0].Signature[5] ^= 0x40
			if err := own.Verify(nil, w.bverifier, w.bverifier, w.bverifier); err == nil {
				return nil, "damaged-signature-accepted"
			}
			own.Signatures[0].Signature[5] ^= 0x40 // the call has returned: the caller writes to its message
			own.Payload[1]++
			own.Payload[1]--
			if err := own.Verify(nil, w.bverifier, w.bverifier, w.bverifier); err != nil {
				return nil, errClass(err)
			}
		}
		return nil, "ok"
	case "sign":
		own := &cose.Sign1Message{Headers: cose.Headers{Protected: cose.ProtectedHeader{int64(1): int64(-7), int64(4): []byte{byte(t)}}}, Payload: []byte{byte(t), 1, 2}}
		if err := own.Sign(nil, nil, w.signer); err != nil {
			return nil, errClass(err)
		}
		plainV := &gatedVerifier{name: "k", alg: cose.AlgorithmES256}
		return nil, errClass(own.Verify(nil, plainV))
	}
	fatal("conc: unknown op %q", op)
	return nil, ""
}

func (w *concWorld) snapshot() string {
	doc := J{"msg": projectSign1(w.msg), "smsg": projectSign(w.smsg), "cs": projectSig((*cose.Signature)(w.cs)), "cs0": ints(w.cs0), "env": ints(w.envelope),
		"key": J{"type": int(w.key.Type), "alg": int(w.key.Algorithm), "id": rawJ(w.key.ID), "opsnil": w.key.Ops == nil, "nops": len(w.key.Ops), "params": projectPairs(w.key.Params)}}
	b, _ := json.Marshal(doc)
	h := sha256.Sum256(b)
	return hex.EncodeToString(h[:8])
}

var concTimeouts int32 // schedules that did not complete in this process; after a few, the rest is not attempted

func init() {
	execs["conc"] = func(c J) J {
		if atomic.LoadInt32(&concTimeouts) >= 3 {
			return J{"op": "conc", "res": "skipped", "sched": c["sched"], "progs": c["progs"], "expect": c["expect"]}
		}
		prev := runtime.GOMAXPROCS(1)
		defer runtime.GOMAXPROCS(prev)
		n := num(c["nthreads"])
		g := &gate{enabled: false, reached: make(chan int), resume: make([]chan struct{}, n+1)}
		for i := range g.resume {
			g.resume[i] = make(chan struct{})
		}
		w := newConcWorld(g, c["decoded"] == true)
		g.enabled = true
		progs := c["progs"].([]any)
		type res struct {
			out []byte
			cls string
		}
		start := make([]chan struct{}, n+1)
		done := make([]chan res, n+1)
		for t := 1; t <= n; t++ {
			start[t] = make(chan struct{})
			done[t] = make(chan res)
			ops := progs[t-1].([]any)
			go func(t int, ops []any) {
				for _, op := range ops {
					<-start[t]
					var r res
					if p := guard(func() { r.out, r.cls = w.run(t, str(op)) }); p != "" {
						r.cls = "panic"
					}
					done[t] <- r
				}
			}(t, ops)
		}
		init0 := w.snapshot()
		snaps := []any{}
		results := make([][]any, n)
		outsOK := true
		blocked := map[int]bool{}
		notes := []any{}
		finish := func(t int, r res, opIndex int) {
			results[t-1] = append(results[t-1], r.cls)
			op := str(progs[t-1].([]any)[opIndex])
			if exp, ok := w.seqOut[op]; ok && !bytes.Equal(exp, r.out) {
				outsOK = false
			}
		}
		opIdx := make([]int, n+1)
		timeout := time.After(30 * time.Second)
		for _, s := range c["sched"].([]any) {
			st := s.([]any)
			t := num(st[0])
			switch str(st[1]) {
			case "call":
				g.caller = t
				select {
				case start[t] <- struct{}{}:
				case <-timeout:
					atomic.AddInt32(&concTimeouts, 1)
					return J{"op": "conc", "res": "timeout", "sched": c["sched"], "progs": c["progs"], "expect": c["expect"]}
				}
				select {
				case tt := <-g.reached:
					if tt != t {
						notes = append(notes, fmt.Sprintf("callback attributed to thread %d while %d was running", tt, t))
					}
					blocked[t] = true
				case r := <-done[t]:
					finish(t, r, opIdx[t])
					opIdx[t]++
				case <-timeout:
					atomic.AddInt32(&concTimeouts, 1)
					return J{"op": "conc", "res": "timeout", "sched": c["sched"], "progs": c["progs"], "expect": c["expect"]}
				}
			case "resume":
				if !blocked[t] {
					notes = append(notes, fmt.Sprintf("thread %d was not at a callback", t))
					break
				}
				blocked[t] = false
				g.caller = t
				select {
				case g.resume[t] <- struct{}{}:
				case <-timeout:
					atomic.AddInt32(&concTimeouts, 1)
					return J{"op": "conc", "res": "timeout", "sched": c["sched"], "progs": c["progs"], "expect": c["expect"]}
				}
				// further callbacks of the same call (COSE_Sign with two verifiers, one after the other or at the same time) pass at once
			waitDone:
				for {
					select {
					case r := <-done[t]:
						finish(t, r, opIdx[t])
						opIdx[t]++
						break waitDone
					case tt := <-g.reached:
						if tt != t {
							notes = append(notes, fmt.Sprintf("callback attributed to thread %d while %d was running", tt, t))
						}
						select {
						case g.resume[tt] <- struct{}{}:
						case <-timeout:
							atomic.AddInt32(&concTimeouts, 1)
							return J{"op": "conc", "res": "timeout", "sched": c["sched"], "progs": c["progs"], "expect": c["expect"]}
						}
					case <-timeout:
						atomic.AddInt32(&concTimeouts, 1)
						return J{"op": "conc", "res": "timeout", "sched": c["sched"], "progs": c["progs"], "expect": c["expect"]}
					}
				}
			}
			snaps = append(snaps, w.snapshot())
		}
		resJ := make([]any, n)
		for i := range results {
			if results[i] == nil {
				results[i] = []any{}
			}
			resJ[i] = results[i]
		}
		stable := []any{}
		for _, b := range g.stable {
			stable = append(stable, b)
		}
		return J{"op": "conc", "res": "done", "sched": c["sched"], "progs": c["progs"], "expect": c["expect"], "decoded": c["decoded"] == true,
			"init": init0, "snaps": snaps, "results": resJ, "outsok": outsOK, "stable": stable, "notes": notes}
	}

	// ungated stress for the race detector: many goroutines, shared message / verifier / signer
	execs["racestress"] = func(c J) J {
		g := &gate{enabled: false}
		w := newConcWorld(g, c["decoded"] == true)
		ops := []string{}
		for _, o := range c["ops"].([]any) {
			ops = append(ops, str(o))
		}
		iters := num(c["iters"])
		workers := num(c["workers"])
		var wg sync.WaitGroup
		var mu sync.Mutex
		bad := 0
		init0 := w.snapshot()
		for k := 0; k < workers; k++ {
			wg.Add(1)
			go func(k int) {
				defer wg.Done()
				for i := 0; i < iters; i++ {
					op := ops[(k+i)%len(ops)]
					out, cls := w.run(k+1, op)
					exp, isEnc := w.seqOut[op]
					if cls != "ok" || (isEnc && !bytes.Equal(exp, out)) {
						mu.Lock()
						bad++
						mu.Unlock()
					}
				}
			}(k)
		}
		wg.Wait()
		return J{"op": "racestress", "ops": c["ops"], "decoded": c["decoded"] == true, "workers": workers, "iters": iters, "bad": bad, "unchanged": w.snapshot() == init0}
	}
}
