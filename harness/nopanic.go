package main

import (
	"crypto/rand"
	"fmt"
	mrand "math/rand"
	"time"

	cose "github.com/veraison/go-cose"
)

// guardT runs f with a deadline; returns "" | "panic: ..." | "timeout"
func guardT(f func(), d time.Duration) string {
	done := make(chan string, 1)
	go func() {
		defer func() {
			if r := recover(); r != nil {
				done <- fmt.Sprintf("panic: %v", r)
			}
		}()
		f()
		done <- ""
	}()
	select {
	case s := <-done:
		return s
	case <-time.After(d):
		return "timeout"
	}
}

type npRun struct {
	bad []any
}

func (r *npRun) do(what string, f func()) {
	if p := guardT(f, 5*time.Second); p != "" {
		if p == "timeout" {
			// re-run once, alone, before it counts
			// (a slow machine must not look like a hang: the deadline of the second, solitary attempt is generous)
			if p2 := guardT(f, 90*time.Second); p2 == "" {
				return
			}
		}
		r.bad = append(r.bad, what+": "+p)
	}
}

var npSigner = &gatedSigner{name: "np", alg: cose.AlgorithmES256}
var npVerifier = &gatedVerifier{name: "np", alg: cose.AlgorithmES256}

func followHeaders(r *npRun, parent any, h *cose.Headers) {
	r.do("Headers.UnmarshalFromRaw", func() { hh := *h; _ = hh.UnmarshalFromRaw() })
	r.do("Headers.MarshalProtected", func() { _, _ = h.MarshalProtected(); _, _ = h.MarshalUnprotected() })
	r.do("Protected.accessors", func() {
		_, _ = h.Protected.Algorithm()
		_, _ = h.Protected.Critical()
		_, _ = h.Protected.PayloadHashAlgorithm()
	})
	for _, lbl := range []int64{cose.HeaderLabelCounterSignature, cose.HeaderLabelCounterSignatureV2} {
		switch v := h.Unprotected[lbl].(type) {
		case *cose.Countersignature:
			followCS(r, parent, v)
		case []*cose.Countersignature:
			for _, c := range v {
				followCS(r, parent, c)
			}
		}
	}
	for _, lbl := range []int64{cose.HeaderLabelCounterSignature0, cose.HeaderLabelCounterSignature0V2} {
		if b, ok := h.Unprotected[lbl].([]byte); ok {
			r.do("VerifyCountersign0(nested)", func() { _ = cose.VerifyCountersign0(npVerifier, parent, nil, b) })
		}
	}
}

func followCS(r *npRun, parent any, c *cose.Countersignature) {
	r.do("Countersignature.Verify(nested)", func() { _ = c.Verify(npVerifier, parent, nil) })
	r.do("Countersignature.Verify(nested, ext)", func() { _ = c.Verify(npVerifier, parent, []byte{1}) })
	r.do("Countersignature.MarshalCBOR(nested)", func() { _, _ = c.MarshalCBOR() })
	r.do("countersign a nested countersignature", func() { _ = cose.NewCountersignature().Sign(rand.Reader, npSigner, c, nil) })
	r.do("Countersign0 over nested", func() { _, _ = cose.Countersign0(rand.Reader, npSigner, c, nil) })
}

func followParent(r *npRun, parent any) {
	r.do("Countersignature.Sign over decoded", func() { _ = cose.NewCountersignature().Sign(rand.Reader, npSigner, parent, nil) })
	r.do("Countersignature.Sign over decoded (ext)", func() { _ = cose.NewCountersignature().Sign(rand.Reader, npSigner, parent, []byte{1}) })
	r.do("Countersign0 over decoded", func() { _, _ = cose.Countersign0(rand.Reader, npSigner, parent, nil) })
	r.do("VerifyCountersign0 over decoded", func() { _ = cose.VerifyCountersign0(npVerifier, parent, nil, []byte{1, 2}) })
}

var npBuiltin cose.Verifier

func init() {
	execs["nopanic"] = func(c J) J {
		b := bytesOf(c["bytes"])
		if b == nil {
			b = []byte{}
		}
		r := &npRun{}
		if npBuiltin == nil {
			npBuiltin, _ = cose.NewVerifier(cose.AlgorithmES256, keyFor("p256-a").Public())
		}
		accepted := []any{}
		r.do("Sign1Message.UnmarshalCBOR", func() {
			var m cose.Sign1Message
			if viaRecv(b, m.UnmarshalCBOR) != nil {
				return
			}
			accepted = append(accepted, "sign1")
			r.do("Sign1Message.MarshalCBOR", func() { _, _ = m.MarshalCBOR() })
			r.do("Sign1Message.Verify", func() {
				_ = m.Verify(nil, npVerifier)
				_ = m.Verify([]byte{1}, npVerifier)
				_ = m.Verify(nil, npBuiltin)
			})
			r.do("Sign1Message.Sign(decoded)", func() { mm := m; _ = mm.Sign(rand.Reader, nil, npSigner) })
			followHeaders(r, &m, &m.Headers)
			followParent(r, &m)
			followParent(r, m)
		})
		r.do("UntaggedSign1Message.UnmarshalCBOR", func() {
			var m cose.UntaggedSign1Message
			if viaRecv(b, m.UnmarshalCBOR) != nil {
				return
			}
			accepted = append(accepted, "sign1u")
			r.do("UntaggedSign1Message.MarshalCBOR", func() { _, _ = m.MarshalCBOR() })
			r.do("UntaggedSign1Message.Verify", func() { _ = m.Verify(nil, npVerifier); _ = m.Verify(nil, npBuiltin) })
			followHeaders(r, (*cose.Sign1Message)(&m), &m.Headers)
			followParent(r, (*cose.Sign1Message)(&m))
		})
		r.do("SignMessage.UnmarshalCBOR", func() {
			var m cose.SignMessage
			if viaRecv(b, m.UnmarshalCBOR) != nil {
				return
			}
			accepted = append(accepted, "sign")
			r.do("SignMessage.MarshalCBOR", func() { _, _ = m.MarshalCBOR() })
			vs := make([]cose.Verifier, len(m.Signatures))
			for i := range vs {
				vs[i] = npVerifier
			}
			r.do("SignMessage.Verify", func() { _ = m.Verify(nil, vs...); _ = m.Verify([]byte{1}, vs...); _ = m.Verify(nil) })
			followHeaders(r, &m, &m.Headers)
			for _, s := range m.Signatures {
				followHeaders(r, s, &s.Headers)
				followParent(r, s)
			}
			followParent(r, &m)
			followParent(r, m)
		})
		r.do("Signature.UnmarshalCBOR", func() {
			var s cose.Signature
			if viaRecv(b, s.UnmarshalCBOR) != nil {
				return
			}
			accepted = append(accepted, "sig")
			r.do("Signature.MarshalCBOR", func() { _, _ = s.MarshalCBOR() })
			r.do("Signature.Verify", func() {
				_ = s.Verify(npVerifier, []byte{0x40}, []byte{1}, nil)
				_ = s.Verify(npVerifier, nil, []byte{1}, nil)
			})
			followHeaders(r, &s, &s.Headers)
			followParent(r, &s)
			followParent(r, s)
		})
		r.do("Countersignature.UnmarshalCBOR", func() {
			var s cose.Countersignature
			if viaRecv(b, s.UnmarshalCBOR) != nil {
				return
			}
			accepted = append(accepted, "csig")
			r.do("Countersignature.MarshalCBOR", func() { _, _ = s.MarshalCBOR() })
			par := cose.Sign1Message{Payload: []byte{1}, Signature: []byte{2}}
			r.do("Countersignature.Verify", func() {
				_ = s.Verify(npVerifier, par, nil)
				_ = s.Verify(npVerifier, &par, []byte{1})
				_ = s.Verify(npVerifier, 42, nil)
			})
			followHeaders(r, &s, &s.Headers)
			followParent(r, &s)
			followParent(r, s)
		})
		r.do("ProtectedHeader.UnmarshalCBOR", func() {
			var h cose.ProtectedHeader
			if viaRecv(b, h.UnmarshalCBOR) != nil {
				return
			}
			accepted = append(accepted, "prot")
			r.do("ProtectedHeader.MarshalCBOR", func() { _, _ = h.MarshalCBOR(); _, _ = h.Algorithm(); _, _ = h.Critical() })
		})
		r.do("UnprotectedHeader.UnmarshalCBOR", func() {
			var h cose.UnprotectedHeader
			if viaRecv(b, h.UnmarshalCBOR) != nil {
				return
			}
			accepted = append(accepted, "unprot")
			r.do("UnprotectedHeader.MarshalCBOR", func() { _, _ = h.MarshalCBOR() })
			hh := cose.Headers{Unprotected: h}
			par := cose.Sign1Message{Payload: []byte{1}, Signature: []byte{2}}
			followHeaders(r, &par, &hh)
		})
		r.do("VerifyHashEnvelope", func() {
			m, err := cose.VerifyHashEnvelope(npVerifier, b)
			if err == nil && m != nil {
				accepted = append(accepted, "henv")
				r.do("henv.MarshalCBOR", func() { _, _ = m.MarshalCBOR() })
			}
		})
		r.do("Key.UnmarshalCBOR", func() {
			var k cose.Key
			if viaRecv(b, k.UnmarshalCBOR) != nil {
				return
			}
			accepted = append(accepted, "key")
			r.do("Key.MarshalCBOR", func() { _, _ = k.MarshalCBOR() })
			r.do("Key.PrivateKey", func() { _, _ = k.PrivateKey() })
			r.do("Key.PublicKey", func() { _, _ = k.PublicKey() })
			r.do("Key.AlgorithmOrDefault", func() { _, _ = k.AlgorithmOrDefault(); k.EC2(); k.OKP(); k.Symmetric() })
			r.do("Key.Signer+Sign", func() {
				if s, err := k.Signer(); err == nil {
					_, _ = s.Sign(rand.Reader, []byte("m"))
				}
			})
			r.do("Key.Verifier+Verify", func() {
				if v, err := k.Verifier(); err == nil {
					_ = v.Verify([]byte("m"), make([]byte, 64))
					_ = v.Verify([]byte("m"), nil)
				}
			})
		})
		if r.bad == nil {
			r.bad = []any{}
		}
		ev := J{"op": "nopanic", "bytes": c["bytes"], "src": str(c["src"]), "bad": r.bad, "accepted": accepted}
		return ev
	}

	// seeded byte-level mutation driver over a corpus of valid messages, keys and envelopes built with the library itself
	drivers["nopanic"] = func(seed int64, tier string) []J {
		rnd := mrand.New(mrand.NewSource(seed))
		g := &gate{}
		w := newConcWorld(g, false)
		var corpus [][]byte
		add := func(b []byte, err error) {
			if err == nil {
				corpus = append(corpus, b)
			}
		}
		add(w.msg.MarshalCBOR())
		add(w.smsg.MarshalCBOR())
		add(w.cs.MarshalCBOR())
		add((*cose.UntaggedSign1Message)(w.msg).MarshalCBOR())
		add(w.key.MarshalCBOR())
		corpus = append(corpus, w.envelope)
		// a message carrying nested countersignatures (single and list) and abbreviated ones
		m2 := *w.msg
		m2.Headers.Unprotected = cose.UnprotectedHeader{int64(7): w.cs, int64(11): []*cose.Countersignature{w.cs, w.cs}, int64(9): w.cs0, int64(12): w.cs0, "x": map[any]any{int64(1): []any{true, nil}}}
		add(m2.MarshalCBOR())
		add(cose.ProtectedHeader{int64(1): cose.AlgorithmES256, int64(2): []any{int64(3)}, int64(3): "a/b"}.MarshalCBOR())
		add(cose.UnprotectedHeader{int64(4): []byte("k"), int64(7): w.cs}.MarshalCBOR())
		if k, err := cose.NewKeyFromPrivate(keyFor("ed0")); err == nil {
			add(k.MarshalCBOR())
		}
		add(cose.NewKeySymmetric([]byte{1, 2, 3}).MarshalCBOR())
		n := 20000
		if tier == "thorough" {
			n = 400000
		}
		var out []J
		for i := 0; i < n; i++ {
			b := append([]byte{}, corpus[rnd.Intn(len(corpus))]...)
			for k := 0; k < 1+rnd.Intn(3); k++ {
				if len(b) == 0 {
					break
				}
				switch rnd.Intn(7) {
				case 0:
					b[rnd.Intn(len(b))] ^= 1 << uint(rnd.Intn(8))
				case 1:
					b[rnd.Intn(len(b))] = byte(rnd.Intn(256))
				case 2:
					p := rnd.Intn(len(b))
					b = append(b[:p], b[p+1:]...)
				case 3:
					p := rnd.Intn(len(b) + 1)
					b = append(b[:p], append([]byte{byte(rnd.Intn(256))}, b[p:]...)...)
				case 4:
					b = b[:rnd.Intn(len(b)+1)]
				case 5:
					o := corpus[rnd.Intn(len(corpus))]
					p, q := rnd.Intn(len(b)+1), rnd.Intn(len(o)+1)
					b = append(append([]byte{}, b[:p]...), o[q:]...)
				case 6:
					// length-field edit: set a byte to a large head value
					b[rnd.Intn(len(b))] = []byte{0x5b, 0x9b, 0xbb, 0x7b, 0x5f, 0x9f, 0xbf, 0xff, 0x1b, 0x3b, 0xdb, 0xfb}[rnd.Intn(12)]
				}
			}
			if len(b) > 0 && rnd.Intn(50) == 0 {
				b = make([]byte, rnd.Intn(40))
				rnd.Read(b)
			}
			out = append(out, J{"bytes": anyInts(b), "src": "driver"})
		}
		return out
	}
}
