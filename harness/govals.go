package main

import (
	"bytes"
	"fmt"
	"math"
	"math/big"
	"sort"

	"github.com/fxamacker/cbor/v2"
	cose "github.com/veraison/go-cose"
)

// ---- concretise: abstract Go value (JSON from the specification) -> Go value of exactly that dynamic type

func magnitude(a []byte) uint64 {
	var m uint64
	for _, b := range a {
		m = m<<8 | uint64(b)
	}
	return m
}

func intOf(v J) (int64, uint64, bool) { // signed value, unsigned value, negative
	mag := magnitude(bytesOf(v["a"]))
	neg, _ := v["neg"].(bool)
	if neg {
		return -1 - int64(mag), 0, true
	}
	return int64(mag), mag, false
}

func goVal(x any) any {
	if x == nil {
		return nil
	}
	v := x.(map[string]any)
	t := str(v["t"])
	switch t {
	case "int", "int8", "int16", "int32", "int64", "uint", "uint8", "uint16", "uint32", "uint64", "alg", "keyop", "curve", "kty":
		s, u, neg := intOf(v)
		switch t {
		case "int":
			return int(s)
		case "int8":
			return int8(s)
		case "int16":
			return int16(s)
		case "int32":
			return int32(s)
		case "int64":
			return s
		case "alg":
			return cose.Algorithm(s)
		case "keyop":
			return cose.KeyOp(s)
		case "curve":
			return cose.Curve(s)
		case "kty":
			return cose.KeyType(s)
		}
		if neg {
			u = uint64(s)
		}
		switch t {
		case "uint":
			return uint(u)
		case "uint8":
			return uint8(u)
		case "uint16":
			return uint16(u)
		case "uint32":
			return uint32(u)
		case "uint64":
			return u
		}
	case "str":
		return string(bytesOf(v["s"]))
	case "bytes":
		b := bytesOf(v["b"])
		if b == nil {
			b = []byte{}
		}
		return b
	case "nilbytes":
		return []byte(nil)
	case "arr":
		xs, _ := v["xs"].([]any)
		out := make([]any, len(xs))
		for i, e := range xs {
			out[i] = goVal(e)
		}
		return out
	case "map":
		ps, _ := v["ps"].([]any)
		out := map[any]any{}
		for _, p := range ps {
			kv := p.([]any)
			out[goKey(goVal(kv[0]))] = goVal(kv[1])
		}
		return out
	case "bool":
		b, _ := v["v"].(bool)
		return b
	case "nil":
		return nil
	case "float":
		f, _ := v["v"].(float64)
		return f
	case "csig":
		return (*cose.Countersignature)(sigObj(v["x"]))
	case "csigval":
		return cose.Countersignature(*sigObj(v["x"]))
	case "nilcsig":
		return (*cose.Countersignature)(nil)
	case "csigs":
		xs, _ := v["xs"].([]any)
		out := make([]*cose.Countersignature, len(xs))
		for i, e := range xs {
			if e == nil {
				out[i] = nil
			} else {
				out[i] = (*cose.Countersignature)(sigObj(e))
			}
		}
		return out
	case "struct":
		return struct{}{}
	case "rawitem":
		return cbor.RawMessage(bytesOf(v["b"]))
	case "simple":
		return cbor.SimpleValue(num(v["v"]))
	case "cwt":
		ps, _ := v["ps"].([]any)
		out := cose.CWTClaims{}
		for _, p := range ps {
			kv := p.([]any)
			out[goKey(goVal(kv[0]))] = goVal(kv[1])
		}
		return out
	}
	panic(fmt.Sprintf("goVal: unknown abstract type %q", t))
}

// map keys must be hashable; []byte keys become cbor.ByteString as the decoder would produce
func goKey(k any) any {
	if b, ok := k.([]byte); ok {
		return cbor.ByteString(b)
	}
	return k
}

// bucketOf builds a header map; nil JSON -> nil map
func bucketOf(x any) map[any]any {
	if x == nil {
		return nil
	}
	ps := x.([]any)
	out := make(map[any]any, len(ps))
	for _, p := range ps {
		kv := p.([]any)
		out[goKey(goVal(kv[0]))] = goVal(kv[1])
	}
	return out
}

func headersOf(x any) cose.Headers {
	var h cose.Headers
	if x == nil {
		return h
	}
	v := x.(map[string]any)
	if p, ok := v["P"]; ok && p != nil && v["Pnil"] != true {
		h.Protected = cose.ProtectedHeader(bucketOf(p))
	}
	if u, ok := v["U"]; ok && u != nil && v["Unil"] != true {
		h.Unprotected = cose.UnprotectedHeader(bucketOf(u))
	}
	if r, ok := v["rawP"]; ok && r != nil && len(bytesOf(r)) > 0 {
		h.RawProtected = bytesOf(r)
	}
	if r, ok := v["rawU"]; ok && r != nil && len(bytesOf(r)) > 0 {
		h.RawUnprotected = bytesOf(r)
	}
	return h
}

func sigObj(x any) *cose.Signature {
	v := x.(map[string]any)
	s := &cose.Signature{Headers: headersOf(x)}
	if b, ok := v["sig"]; ok && b != nil {
		s.Signature = bytesOf(b)
	}
	return s
}

// ---- project: Go value -> abstract JSON (same vocabulary), deterministic

func intJ(t string, s int64) J {
	if s < 0 {
		return J{"t": t, "neg": true, "a": ints(trimBE(uint64(-1 - s)))}
	}
	return J{"t": t, "neg": false, "a": ints(trimBE(uint64(s)))}
}

func uintJ(t string, u uint64) J {
	return J{"t": t, "neg": false, "a": ints(trimBE(u))}
}

func trimBE(u uint64) []byte {
	var b []byte
	for u > 0 {
		b = append([]byte{byte(u)}, b...)
		u >>= 8
	}
	return b
}

func project(x any) any {
	switch v := x.(type) {
	case nil:
		return J{"t": "nil"}
	case int:
		return intJ("int", int64(v))
	case int8:
		return intJ("int8", int64(v))
	case int16:
		return intJ("int16", int64(v))
	case int32:
		return intJ("int32", int64(v))
	case int64:
		return intJ("int64", v)
	case uint:
		return uintJ("uint", uint64(v))
	case uint8:
		return uintJ("uint8", uint64(v))
	case uint16:
		return uintJ("uint16", uint64(v))
	case uint32:
		return uintJ("uint32", uint64(v))
	case uint64:
		return uintJ("uint64", v)
	case cose.Algorithm:
		return intJ("alg", int64(v))
	case cose.KeyOp:
		return intJ("keyop", int64(v))
	case cose.Curve:
		return intJ("curve", int64(v))
	case cose.KeyType:
		return intJ("kty", int64(v))
	case string:
		return J{"t": "str", "s": ints([]byte(v))}
	case []byte:
		if v == nil {
			return J{"t": "nilbytes"}
		}
		return J{"t": "bytes", "b": ints(v)}
	case cbor.ByteString:
		return J{"t": "bytes", "b": ints([]byte(v))}
	case []any:
		xs := make([]any, len(v))
		for i, e := range v {
			xs[i] = project(e)
		}
		return J{"t": "arr", "xs": xs}
	case map[any]any:
		return J{"t": "map", "ps": projectPairs(v)}
	case cose.CWTClaims:
		return J{"t": "cwt", "ps": projectPairs(v)}
	case bool:
		return J{"t": "bool", "v": v}
	case float64:
		if math.IsNaN(v) || math.IsInf(v, 0) {
			return J{"t": "float", "v": 0, "special": fmt.Sprint(v)}
		}
		return J{"t": "float", "v": v}
	case float32:
		return J{"t": "float", "v": float64(v)}
	case *cose.Countersignature:
		if v == nil {
			return J{"t": "nilcsig"}
		}
		return J{"t": "csig", "x": projectSig((*cose.Signature)(v))}
	case cose.Countersignature:
		vv := cose.Signature(v)
		return J{"t": "csigval", "x": projectSig(&vv)}
	case []*cose.Countersignature:
		xs := make([]any, len(v))
		for i, e := range v {
			xs[i] = projectSig((*cose.Signature)(e))
		}
		if v == nil {
			return J{"t": "csigs", "xs": xs, "nilslice": true}
		}
		return J{"t": "csigs", "xs": xs}
	case cbor.Tag:
		return J{"t": "tag", "n": v.Number, "x": project(v.Content)}
	case cbor.SimpleValue:
		return J{"t": "simple", "v": int(v)}
	case big.Int:
		return J{"t": "bigint", "s": v.String()}
	case *big.Int:
		return J{"t": "bigintptr", "s": v.String()}
	}
	return J{"t": "other", "go": fmt.Sprintf("%T", x)}
}

func projectPairs(m map[any]any) []any {
	type kv struct {
		k, v any
		sk   []byte
	}
	var ps []kv
	for k, v := range m {
		pk := project(k)
		ps = append(ps, kv{pk, project(v), []byte(fmt.Sprint(pk))})
	}
	sort.Slice(ps, func(i, j int) bool { return bytes.Compare(ps[i].sk, ps[j].sk) < 0 })
	out := make([]any, len(ps))
	for i, p := range ps {
		out[i] = []any{p.k, p.v}
	}
	return out
}

// full projections (with retained raw bytes), free of JSON null: nil-ness is carried by flags
func projectBucket(m map[any]any) any {
	if m == nil {
		return []any{}
	}
	ps := projectPairs(m)
	if ps == nil {
		return []any{}
	}
	return ps
}

func rawJ(b []byte) any {
	if b == nil {
		return []int{}
	}
	return ints(b)
}

func projectHeaders(h cose.Headers) J {
	return J{"P": projectBucket(h.Protected), "Pnil": h.Protected == nil, "U": projectBucket(h.Unprotected), "Unil": h.Unprotected == nil,
		"rawP": rawJ(h.RawProtected), "rawPnil": h.RawProtected == nil, "rawU": rawJ(h.RawUnprotected), "rawUnil": h.RawUnprotected == nil}
}

func projectSig(s *cose.Signature) J {
	if s == nil {
		return J{"nilptr": true}
	}
	j := projectHeaders(s.Headers)
	j["sig"] = rawJ(s.Signature)
	j["signil"] = s.Signature == nil
	return j
}

func projectSign1(m *cose.Sign1Message) J {
	j := projectHeaders(m.Headers)
	j["payload"] = payloadJ(m.Payload)
	j["sig"] = rawJ(m.Signature)
	j["signil"] = m.Signature == nil
	return j
}

func projectSign(m *cose.SignMessage) J {
	j := projectHeaders(m.Headers)
	j["payload"] = payloadJ(m.Payload)
	xs := make([]any, len(m.Signatures))
	for i, s := range m.Signatures {
		if s == nil {
			xs[i] = J{"nilslot": true, "P": []any{}, "U": []any{}, "sig": []int{}}
			continue
		}
		xs[i] = projectSig(s)
	}
	j["sigs"] = xs
	j["sigsnil"] = m.Signatures == nil
	return j
}

// ---- projections without raw bytes and without JSON null (for equivalence by image, C08)

func bucketNoNull(m map[any]any) any {
	if m == nil {
		return []any{}
	}
	ps := projectPairsNoRaw(m)
	if ps == nil {
		return []any{}
	}
	return ps
}

func projectPairsNoRaw(m map[any]any) []any {
	ps := projectPairs(m)
	for _, p := range ps {
		kv := p.([]any)
		kv[1] = stripRaw(kv[1])
	}
	if ps == nil {
		return []any{}
	}
	return ps
}

// stripRaw removes rawP/rawU and nulls from projected values, recursively
func stripRaw(x any) any {
	switch v := x.(type) {
	case J:
		out := J{}
		for k, e := range v {
			if k == "rawP" || k == "rawU" || k == "rawPnil" || k == "rawUnil" || k == "Pnil" || k == "Unil" || k == "signil" {
				continue
			}
			if e == nil {
				out[k] = []any{}
			} else {
				out[k] = stripRaw(e)
			}
		}
		return out
	case []any:
		out := make([]any, len(v))
		for i, e := range v {
			out[i] = stripRaw(e)
		}
		return out
	case []int:
		return v
	}
	return x
}

func payloadJ(b []byte) any {
	if b == nil {
		return []int{-1}
	}
	return ints(b)
}

func noRawSig(s *cose.Signature) J {
	return J{"P": bucketNoNull(s.Headers.Protected), "U": bucketNoNull(s.Headers.Unprotected), "sig": ints(s.Signature)}
}

func noRawSign1(m *cose.Sign1Message) J {
	return J{"P": bucketNoNull(m.Headers.Protected), "U": bucketNoNull(m.Headers.Unprotected), "payload": payloadJ(m.Payload), "sig": ints(m.Signature)}
}

func noRawSign(m *cose.SignMessage) J {
	xs := make([]any, len(m.Signatures))
	for i, s := range m.Signatures {
		xs[i] = noRawSig(s)
	}
	return J{"P": bucketNoNull(m.Headers.Protected), "U": bucketNoNull(m.Headers.Unprotected), "payload": payloadJ(m.Payload), "sigs": xs}
}
