package main

import (
	"errors"
	"io"
	"sync"

	cose "github.com/veraison/go-cose"
)

// call log shared by spies (public-API instruments; no hooks in the library)
type spyLog struct {
	mu    sync.Mutex
	calls []J
}

func (l *spyLog) add(c J) {
	l.mu.Lock()
	l.calls = append(l.calls, c)
	l.mu.Unlock()
}

func (l *spyLog) list() []any {
	l.mu.Lock()
	defer l.mu.Unlock()
	out := make([]any, len(l.calls))
	for i, c := range l.calls {
		out[i] = c
	}
	return out
}

var errInjected = errors.New("injected signer failure")

// spySigner records every call; it wraps a real signer (inner) or fabricates a signature.
type spySigner struct {
	name  string
	alg   cose.Algorithm
	inner cose.Signer // may be nil: then a fixed pseudo signature is returned
	fault string      // "", "err", "empty", "nil", "bytes+err"
	log   *spyLog
}

func (s *spySigner) Algorithm() cose.Algorithm {
	s.log.add(J{"who": s.name, "call": "Algorithm"})
	return s.alg
}

func (s *spySigner) Sign(rand io.Reader, content []byte) (ret []byte, err error) {
	defer func() {
		s.log.add(J{"who": s.name, "call": "Sign", "content": ints(content), "ret": rawJ(ret), "reterr": errClass(err), "fault": s.fault})
	}()
	switch s.fault {
	case "err":
		return nil, errInjected
	case "empty":
		return []byte{}, nil
	case "nil":
		return nil, nil
	case "bytes+err":
		return []byte{0xde, 0xad, 0xbe, 0xef}, errInjected
	}
	if s.inner != nil {
		return s.inner.Sign(rand, content)
	}
	return append([]byte{0x5a}, []byte(s.name)...), nil
}

var errSpyVerify = errors.New("spy verifier: signature mismatch")
var errInjectedVerify = errors.New("injected verifier failure")

type spyVerifier struct {
	name   string
	alg    cose.Algorithm
	inner  cose.Verifier // may be nil: accepts exactly the pseudo signature of the same name
	accept string        // with inner == nil: "name" (pseudo signature of signer name), "any", "none"
	fault  string        // "", "err" (non-ErrVerification error)
	log    *spyLog
}

func (v *spyVerifier) Algorithm() cose.Algorithm {
	v.log.add(J{"who": v.name, "call": "Algorithm"})
	return v.alg
}

func (v *spyVerifier) Verify(content, signature []byte) (err error) {
	defer func() {
		v.log.add(J{"who": v.name, "call": "Verify", "content": ints(content), "sig": ints(signature), "reterr": errClass(err), "fault": v.fault})
	}()
	if v.fault == "err" {
		return errInjectedVerify
	}
	if v.inner != nil {
		return v.inner.Verify(content, signature)
	}
	switch v.accept {
	case "any":
		return nil
	case "none":
		return cose.ErrVerification
	}
	if string(signature) == string(append([]byte{0x5a}, []byte(v.name)...)) {
		return nil
	}
	return cose.ErrVerification
}

// classify an error into the named sentinels the properties talk about
func errClass(err error) string {
	switch {
	case err == nil:
		return "ok"
	case errors.Is(err, cose.ErrAlgorithmMismatch):
		return "ErrAlgorithmMismatch"
	case errors.Is(err, cose.ErrAlgorithmNotFound):
		return "ErrAlgorithmNotFound"
	case errors.Is(err, cose.ErrVerification):
		return "ErrVerification"
	case errors.Is(err, cose.ErrEmptySignature):
		return "ErrEmptySignature"
	case errors.Is(err, cose.ErrNoSignatures):
		return "ErrNoSignatures"
	case errors.Is(err, cose.ErrMissingPayload):
		return "ErrMissingPayload"
	case errors.Is(err, cose.ErrAlgorithmNotSupported):
		return "ErrAlgorithmNotSupported"
	case errors.Is(err, cose.ErrInvalidPubKey):
		return "ErrInvalidPubKey"
	case errors.Is(err, cose.ErrOpNotSupported):
		return "ErrOpNotSupported"
	case errors.Is(err, cose.ErrInvalidAlgorithm):
		return "ErrInvalidAlgorithm"
	case errors.Is(err, errInjected):
		return "ErrInjected"
	case errors.Is(err, errInjectedVerify):
		return "ErrInjectedVerify"
	case errors.Is(err, errEntropy):
		return "ErrEntropy"
	}
	return "err"
}
