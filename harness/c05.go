package main

import (
	cose "github.com/veraison/go-cose"
)

// decodeAll offers the bytes to every message/signature decoder and reports which accepted.
func decodeAll(b []byte) (acc J, panics []string) {
	acc = J{}
	try := func(kind string, f func() error) {
		var err error
		if p := guard(func() { err = f() }); p != "" {
			panics = append(panics, kind+": "+p)
			acc[kind] = false
			return
		}
		acc[kind] = err == nil
	}
	try("sign1", func() error { var m cose.Sign1Message; return m.UnmarshalCBOR(b) })
	try("sign1u", func() error { var m cose.UntaggedSign1Message; return m.UnmarshalCBOR(b) })
	try("sign", func() error { var m cose.SignMessage; return m.UnmarshalCBOR(b) })
	try("sig", func() error { var m cose.Signature; return m.UnmarshalCBOR(b) })
	try("csig", func() error { var m cose.Countersignature; return m.UnmarshalCBOR(b) })
	return
}

func init() {
	execs["C05"] = func(c J) J {
		b := bytesOf(c["bytes"])
		acc, panics := decodeAll(b)
		ev := J{"op": "decode", "kind": c["kind"], "bytes": c["bytes"], "acc": acc, "src": c["src"], "d": c["d"], "base": c["base"]}
		if len(panics) > 0 {
			ev["panics"] = panics
		}
		return ev
	}
}
