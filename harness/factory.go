package main

import (
	"bytes"
	"crypto"
	"crypto/ecdsa"
	"crypto/ed25519"
	"crypto/elliptic"
	"crypto/rand"
	"crypto/sha256"
	"crypto/sha512"
	"io"
	"math/big"

	cose "github.com/veraison/go-cose"
)

type strangePub struct{}

// foreignSigner: a crypto.Signer whose Public() is of a type no algorithm family knows (or nil)
type foreignSigner struct{ pub crypto.PublicKey }

func (f foreignSigner) Public() crypto.PublicKey { return f.pub }
func (f foreignSigner) Sign(io.Reader, []byte, crypto.SignerOpts) ([]byte, error) {
	return []byte{1}, nil
}

func signerKeyOfKind(kind string) crypto.Signer {
	switch kind {
	case "rsa1024", "rsa2047", "rsa2048", "rsa3072", "rsa2048e3":
		return keyFor(kind)
	case "rsa2048-opaque":
		return opaqueSigner{keyFor("rsa2048")}
	case "rsa1024-opaque":
		return opaqueSigner{keyFor("rsa1024")}
	case "rsa2047-opaque":
		return opaqueSigner{keyFor("rsa2047")}
	case "p224":
		return keyFor("p224-a")
	case "p256":
		return keyFor("p256-a")
	case "p384":
		return keyFor("p384-a")
	case "p521":
		return keyFor("p521-a")
	case "p256-opaque":
		return opaqueSigner{keyFor("p256-a")}
	case "ed":
		return keyFor("ed0")
	case "ed-opaque":
		return opaqueSigner{keyFor("ed0")}
	case "foreign-strange":
		return foreignSigner{strangePub{}}
	case "foreign-nil":
		return foreignSigner{nil}
	}
	fatal("signerKeyOfKind %q", kind)
	return nil
}

func publicKeyOfKind(kind string) crypto.PublicKey {
	switch kind {
	case "rsa1024", "rsa2047", "rsa2048", "rsa3072", "rsa2048e3", "p224", "p256", "p384", "p521", "ed":
		return signerKeyOfKind(kind).Public()
	case "offcurve":
		k := keyFor("p256-a").(*ecdsa.PrivateKey)
		return &ecdsa.PublicKey{Curve: elliptic.P256(), X: new(big.Int).Set(k.X), Y: new(big.Int).Add(k.Y, big.NewInt(1))}
	case "offcurve2", "offcurve2-p384", "offcurve2-p521":
		// same x and same parity of y as the valid fixture key of that curve
		name := map[string]string{"offcurve2": "p256", "offcurve2-p384": "p384", "offcurve2-p521": "p521"}[kind]
		k := signerKeyOfKind(name).(*ecdsa.PrivateKey)
		return &ecdsa.PublicKey{Curve: k.Curve, X: new(big.Int).Set(k.X), Y: new(big.Int).Add(k.Y, big.NewInt(2))}
	case "infinity":
		return &ecdsa.PublicKey{Curve: elliptic.P256(), X: new(big.Int), Y: new(big.Int)}
	case "unreduced":
		// a valid point with a coordinate that is not reduced modulo the field prime
		k := keyFor("p256-a").(*ecdsa.PrivateKey)
		return &ecdsa.PublicKey{Curve: elliptic.P256(), X: new(big.Int).Add(k.X, elliptic.P256().Params().P), Y: new(big.Int).Set(k.Y)}
	case "negative":
		k := keyFor("p256-a").(*ecdsa.PrivateKey)
		return &ecdsa.PublicKey{Curve: elliptic.P256(), X: new(big.Int).Sub(k.X, elliptic.P256().Params().P), Y: new(big.Int).Set(k.Y)}
	case "ecdsa-value":
		return *(keyFor("p256-a").Public().(*ecdsa.PublicKey))
	case "ed-private":
		return keyFor("ed0")
	case "strange":
		return strangePub{}
	case "nil":
		return nil
	}
	fatal("publicKeyOfKind %q", kind)
	return nil
}

func hashBy(name string, m []byte) []byte {
	switch name {
	case "sha256":
		h := sha256.Sum256(m)
		return h[:]
	case "sha384":
		h := sha512.Sum384(m)
		return h[:]
	case "sha512":
		h := sha512.Sum512(m)
		return h[:]
	}
	return nil
}

func init() {
	execs["factory"] = func(c J) J {
		alg := cose.Algorithm(num(c["alg"]))
		kind := str(c["keykind"])
		side := str(c["side"])
		ev := J{"op": "factory", "alg": c["alg"], "keykind": kind, "side": side, "res": "n/a", "reported": 0}
		if p := guard(func() {
			if side == "signer" {
				s, err := cose.NewSigner(alg, signerKeyOfKind(kind))
				ev["res"] = errClass(err)
				ev["nilresult"] = s == nil
				if err == nil {
					ev["reported"] = int(s.Algorithm())
				}
			} else {
				v, err := cose.NewVerifier(alg, publicKeyOfKind(kind))
				ev["res"] = errClass(err)
				ev["nilresult"] = v == nil
				if err == nil {
					ev["reported"] = int(v.Algorithm())
				}
			}
		}); p != "" {
			ev["res"] = "panic"
			ev["panic"] = p
			ev["nilresult"] = true
		}
		return ev
	}
	// digest equivalence: Sign(m) / SignDigest(H(m)) x Verify(m) / VerifyDigest(H'(m))
	execs["digest"] = func(c J) J {
		alg := num(c["alg"])
		n := num(c["msglen"])
		msg := make([]byte, n)
		for i := range msg {
			msg[i] = byte(i*7 + n)
		}
		ev := J{"op": "digest", "alg": c["alg"], "msglen": n, "signpath": c["signpath"], "verifypath": c["verifypath"], "signhash": c["signhash"], "verifyhash": c["verifyhash"], "keykind": c["keykind"], "key": str(c["key"])}
		keyName := keyNameForAlg(alg, "a")
		if kn := str(c["key"]); kn != "" && kn != "default" {
			keyName = kn
		}
		key := keyFor(keyName)
		var sk crypto.Signer = key
		if str(c["keykind"]) == "opaque" {
			sk = opaqueSigner{key}
		}
		ev["sign"], ev["verify"], ev["stdv"], ev["digestkept"] = "n/a", "n/a", false, true
		var held []byte // the digest the caller holds (in a larger buffer, as h.Sum(buf[:0]) leaves it)
		if p := guard(func() {
			s, err := cose.NewSigner(cose.Algorithm(alg), sk)
			if err != nil {
				ev["sign"] = "factory-" + errClass(err)
				return
			}
			v, err := cose.NewVerifier(cose.Algorithm(alg), key.Public())
			if err != nil {
				ev["verify"] = "factory-" + errClass(err)
				return
			}
			var sig []byte
			if str(c["signpath"]) == "Sign" {
				sig, err = s.Sign(rand.Reader, msg)
			} else {
				ds, ok := s.(cose.DigestSigner)
				if !ok {
					ev["sign"] = "no-DigestSigner"
					return
				}
				d := hashBy(str(c["signhash"]), msg)
				held = append(make([]byte, 0, 512), d...)
				sig, err = ds.SignDigest(rand.Reader, held)
				ev["digestkept"] = bytes.Equal(held, d)
			}
			ev["sign"] = errClass(err)
			if err != nil {
				return
			}
			ev["stdv"] = stdVerify(alg, key.Public(), msg, sig)
			if str(c["verifypath"]) == "Verify" {
				ev["verify"] = errClass(v.Verify(msg, sig))
			} else {
				dv, ok := v.(cose.DigestVerifier)
				if !ok {
					ev["verify"] = "no-DigestVerifier"
					return
				}
				vd := hashBy(str(c["verifyhash"]), msg)
				if held != nil && str(c["verifyhash"]) == str(c["signhash"]) {
					vd = held // the caller verifies with the digest variable it signed with
				}
				ev["verify"] = errClass(dv.VerifyDigest(vd, sig))
			}
		}); p != "" {
			ev["verify"] = "panic"
		}
		return ev
	}
}

var _ = ed25519.PublicKeySize
