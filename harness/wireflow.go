package main

import (
	"crypto"
	"fmt"
	cose "github.com/veraison/go-cose"
	"sync"
)

// installSig replaces the placeholder run (bytes of value fill) by the signature. The specification may have
// shortened or lengthened the placeholder (a signature-length mutation): a shorter run receives a truncated
// signature, a longer one the signature followed by zero bytes. False if no run of at least 32 fill bytes exists.
func installSig(wire []byte, fill byte, sig []byte, op string) bool {
	best, bestLen := -1, 0
	for i := 0; i < len(wire); {
		if wire[i] != fill {
			i++
			continue
		}
		j := i
		for j < len(wire) && wire[j] == fill {
			j++
		}
		if j-i > bestLen {
			best, bestLen = i, j-i
		}
		i = j
	}
	if bestLen < 32 {
		return false
	}
	sig = reshape(op, sig, bestLen)
	for k := 0; k < bestLen; k++ {
		if k < len(sig) {
			wire[best+k] = sig[k]
		} else {
			wire[best+k] = 0
		}
	}
	return true
}

// reshape renders a signature at another length, as chosen by the specification (sigop) for a lengthened placeholder
func reshape(op string, sig []byte, run int) []byte {
	extra := run - len(sig)
	if extra <= 0 {
		return sig
	}
	h := len(sig) / 2
	zeros := make([]byte, extra)
	switch op {
	case "lead":
		return append(zeros, sig...)
	case "midzero":
		out := append([]byte{}, sig[:h]...)
		out = append(out, zeros...)
		return append(out, sig[h:]...)
	case "padhalves":
		if extra%2 == 0 {
			z := make([]byte, extra/2)
			out := append(append([]byte{}, z...), sig[:h]...)
			out = append(out, z...)
			return append(out, sig[h:]...)
		}
	}
	return append(append([]byte{}, sig...), zeros...)
}

// sigOp corrupts a signature in place (same length), as chosen by the specification.
func sigOp(op string, sig []byte) {
	n := len(sig)
	if n == 0 {
		return
	}
	switch op {
	case "flipfirst":
		sig[0] ^= 0x80
	case "flipmid":
		sig[n/2] ^= 0x01
	case "fliplast":
		sig[n-1] ^= 0x01
	case "zero":
		for i := range sig {
			sig[i] = 0
		}
	case "swaphalves":
		h := n / 2
		tmp := append([]byte{}, sig[:h]...)
		copy(sig[:h], sig[h:2*h])
		copy(sig[h:2*h], tmp)
	}
}

func clearRawSig(s *cose.Signature) {
	s.Headers.RawProtected = nil
	s.Headers.RawUnprotected = nil
	clearRawBucket(s.Headers.Unprotected)
}

func clearRawBucket(u cose.UnprotectedHeader) {
	for _, v := range u {
		switch c := v.(type) {
		case *cose.Countersignature:
			if c != nil {
				clearRawSig((*cose.Signature)(c))
			}
		case []*cose.Countersignature:
			for _, e := range c {
				if e != nil {
					clearRawSig((*cose.Signature)(e))
				}
			}
		}
	}
}

type decoded struct {
	kind string
	s1   *cose.Sign1Message
	s1u  *cose.UntaggedSign1Message
	sn   *cose.SignMessage
	sg   *cose.Signature
	cs   *cose.Countersignature
}

func decodeMsg(kind string, b []byte) (*decoded, error) {
	d := &decoded{kind: kind}
	var err error
	switch kind {
	case "sign1":
		d.s1 = &cose.Sign1Message{}
		err = viaRecv(b, d.s1.UnmarshalCBOR)
	case "sign1u":
		d.s1u = &cose.UntaggedSign1Message{}
		err = viaRecv(b, d.s1u.UnmarshalCBOR)
	case "sign":
		d.sn = &cose.SignMessage{}
		err = viaRecv(b, d.sn.UnmarshalCBOR)
	case "sig":
		d.sg = &cose.Signature{}
		err = viaRecv(b, d.sg.UnmarshalCBOR)
	case "csig":
		d.cs = &cose.Countersignature{}
		err = viaRecv(b, d.cs.UnmarshalCBOR)
	}
	if err != nil {
		return nil, err
	}
	return d, nil
}

func (d *decoded) marshal() ([]byte, error) {
	switch d.kind {
	case "sign1":
		return d.s1.MarshalCBOR()
	case "sign1u":
		return d.s1u.MarshalCBOR()
	case "sign":
		return d.sn.MarshalCBOR()
	case "sig":
		return d.sg.MarshalCBOR()
	case "csig":
		return d.cs.MarshalCBOR()
	}
	return nil, nil
}

func (d *decoded) clearRaw() {
	switch d.kind {
	case "sign1":
		d.s1.Headers.RawProtected, d.s1.Headers.RawUnprotected = nil, nil
		clearRawBucket(d.s1.Headers.Unprotected)
	case "sign1u":
		d.s1u.Headers.RawProtected, d.s1u.Headers.RawUnprotected = nil, nil
		clearRawBucket(d.s1u.Headers.Unprotected)
	case "sign":
		d.sn.Headers.RawProtected, d.sn.Headers.RawUnprotected = nil, nil
		clearRawBucket(d.sn.Headers.Unprotected)
		for _, s := range d.sn.Signatures {
			clearRawSig(s)
		}
	case "sig":
		clearRawSig(d.sg)
	case "csig":
		clearRawSig((*cose.Signature)(d.cs))
	}
}

func (d *decoded) sigs() [][]byte {
	switch d.kind {
	case "sign1":
		return [][]byte{d.s1.Signature}
	case "sign1u":
		return [][]byte{d.s1u.Signature}
	case "sign":
		var out [][]byte
		for _, s := range d.sn.Signatures {
			out = append(out, s.Signature)
		}
		return out
	case "sig":
		return [][]byte{d.sg.Signature}
	case "csig":
		return [][]byte{d.cs.Signature}
	}
	return nil
}

// verify with the given verifiers; a detached payload is supplied by the verifier
func (d *decoded) verify(ext, payload, bodyprot []byte, vs []cose.Verifier) error {
	switch d.kind {
	case "sign1":
		m := *d.s1
		if m.Payload == nil {
			m.Payload = payload
		}
		return m.Verify(ext, vs[0])
	case "sign1u":
		m := *d.s1u
		if m.Payload == nil {
			m.Payload = payload
		}
		return m.Verify(ext, vs[0])
	case "sign":
		m := *d.sn
		if m.Payload == nil {
			m.Payload = payload
		}
		return m.Verify(ext, vs...)
	case "sig":
		return d.sg.Verify(vs[0], bodyprot, payload, ext)
	}
	return nil
}

func extOf(v any) []byte {
	b := bytesOf(v)
	if len(b) == 0 {
		return nil
	}
	return b
}

func init() {
	execs["wireflow"] = func(c J) J {
		kind := str(c["kind"])
		wire := append([]byte{}, bytesOf(c["wire"])...)
		ext := extOf(c["ext"])
		payload := bytesOf(c["payload"])
		if payload == nil {
			payload = []byte{}
		}
		bodyprot := bytesOf(c["bodyprot"])
		slotsIn, _ := c["slots"].([]any)
		ev := J{"op": "wireflow", "id": c["id"], "kind": kind, "ext": c["ext"], "payload": c["payload"], "mut": c["mut"], "bodyprot": c["bodyprot"],
			"sigop": c["sigop"], "alt": c["alt"], "henv": c["henv"] == true, "henvres": "n/a", "henvspy": []any{}}
		log := &spyLog{}
		var vs []cose.Verifier
		slots := make([]any, len(slotsIn))
		type slotT struct {
			alg int
			tbs []byte
			pub any
		}
		var sl []slotT
		for i, s := range slotsIn {
			sm := s.(map[string]any)
			alg := num(sm["alg"])
			tbs := bytesOf(sm["tbs"])
			key := keyFor(keyNameForAlg(alg, "a"))
			installed := false
			signtbs := tbs
			if st, ok := sm["signtbs"]; ok {
				signtbs = bytesOf(st)
			}
			sigop := str(c["sigop"])
			if len(signtbs) > 0 {
				skey := key
				if sigop == "wrongkey" {
					skey = keyFor(keyNameForAlg(alg, "b"))
				}
				sig, err := stdSign(alg, skey, signtbs)
				if err != nil {
					fatal("stdSign: %v", err)
				}
				if i == 0 || sigop == "wrongkey" {
					sigOp(sigop, sig)
				}
				installed = installSig(wire, byte(num(sm["fill"])), sig, sigop)
			}
			v := sharedVerifier(alg, key.Public())
			vs = append(vs, &spyVerifier{name: "v", alg: cose.Algorithm(alg), inner: v, log: log})
			slots[i] = J{"alg": alg, "tbs": sm["tbs"], "installed": installed}
			sl = append(sl, slotT{alg, tbs, key.Public()})
		}
		ev["wire"] = ints(wire)
		var d *decoded
		var derr error
		if p := guard(func() { d, derr = decodeMsg(kind, wire) }); p != "" {
			ev["dec"] = "panic"
			ev["slots"] = slots
			return ev
		}
		ev["dec"] = okErr(derr)
		ev["ver"], ev["re"], ev["reenc"], ev["rever"], ev["clr"], ev["clr2a"], ev["clr2b"], ev["re2"] = "n/a", []int{}, "n/a", "n/a", []int{}, []int{}, []int{}, []int{}
		ev["spy"] = []any{}
		if derr != nil {
			ev["slots"] = slots
			return ev
		}
		// what the library decoded as signature bytes, and whether the standard library finds them valid over the spec's TBS
		ds := d.sigs()
		for i := range slots {
			sj := slots[i].(J)
			if i < len(ds) {
				sj["sig"] = ints(ds[i])
				sj["cv"] = len(sl[i].tbs) > 0 && stdVerify(sl[i].alg, sl[i].pub, sl[i].tbs, ds[i])
			} else {
				sj["sig"] = []int{}
				sj["cv"] = false
			}
		}
		ev["slots"] = slots
		ev["nsigs"] = len(ds)
		var verr error
		if p := guard(func() { verr = d.verify(ext, payload, bodyprot, vs) }); p != "" {
			ev["ver"] = "panic"
			return ev
		}
		ev["ver"] = errClass(verr)
		var calls []any
		for _, cl := range log.list() {
			if cl.(J)["call"] == "Verify" {
				calls = append(calls, cl)
			}
		}
		if calls == nil {
			calls = []any{}
		}
		ev["spy"] = calls
		// the same bytes through VerifyHashEnvelope when the case is a hash envelope
		if c["henv"] == true {
			hlog := &spyLog{}
			sv := vs[0].(*spyVerifier)
			var herr error
			if p := guard(func() {
				_, herr = cose.VerifyHashEnvelope(&spyVerifier{name: "v", alg: sv.alg, inner: sv.inner, log: hlog}, wire)
			}); p != "" {
				ev["henvres"] = "panic"
			} else {
				ev["henvres"] = errClass(herr)
			}
			var hc []any
			for _, cl := range hlog.list() {
				if cl.(J)["call"] == "Verify" {
					hc = append(hc, cl)
				}
			}
			if hc != nil {
				ev["henvspy"] = hc
			}
		}
		// re-encode untouched (C09)
		var re []byte
		var rerr error
		if p := guard(func() { re, rerr = d.marshal() }); p != "" {
			ev["reenc"] = "panic"
			return ev
		}
		ev["reenc"] = okErr(rerr)
		if rerr == nil {
			ev["re"] = ints(re)
			if d2, err := decodeMsg(kind, re); err != nil {
				ev["rever"] = "decode-err"
			} else {
				log2 := &spyLog{}
				var vs2 []cose.Verifier
				for _, v := range vs {
					sv := v.(*spyVerifier)
					vs2 = append(vs2, &spyVerifier{name: "v", alg: sv.alg, inner: sv.inner, log: log2})
				}
				ev["rever"] = errClass(d2.verify(ext, payload, bodyprot, vs2))
				// a second cycle must be a fixed point
				if re2, err := d2.marshal(); err == nil {
					ev["re2"] = ints(re2)
				} else {
					ev["re2"] = []int{}
				}
			}
		}
		// discard retained raw bytes in every layer: canonical form, stable under another cycle
		d.clearRaw()
		if clr, err := d.marshal(); err == nil {
			ev["clr"] = ints(clr)
			if d3, err := decodeMsg(kind, clr); err == nil {
				if b, err := d3.marshal(); err == nil {
					ev["clr2a"] = ints(b)
				}
				d3.clearRaw()
				if b, err := d3.marshal(); err == nil {
					ev["clr2b"] = ints(b)
				}
			}
		}
		return ev
	}
}

// sharedVerifier: one built-in verifier per (algorithm, key) for the whole process, used by all cases (which run in parallel) - as an
// application verifying many messages under one key does.
var sharedVerifiers sync.Map

func sharedVerifier(alg int, pub crypto.PublicKey) cose.Verifier {
	k := fmt.Sprintf("%d/%p", alg, pub)
	if v, ok := sharedVerifiers.Load(k); ok {
		return v.(cose.Verifier)
	}
	v, err := cose.NewVerifier(cose.Algorithm(alg), pub)
	if err != nil {
		fatal("NewVerifier(%d): %v", alg, err)
	}
	actual, _ := sharedVerifiers.LoadOrStore(k, v)
	return actual.(cose.Verifier)
}
