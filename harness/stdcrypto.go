package main

// Signing and verification with the Go standard library only (never through go-cose):
// the "independent implementation" that signs the specification's Sig_structure (C07), and the
// primitive cryptoValid fact used by trace validation (C03).

import (
	"crypto"
	"crypto/ecdsa"
	"crypto/ed25519"
	"crypto/rand"
	"crypto/rsa"
	"crypto/sha256"
	"crypto/sha512"
	"fmt"
	"math/big"
)

func hashFor(alg int) (crypto.Hash, func([]byte) []byte) {
	switch alg {
	case -7, -37:
		return crypto.SHA256, func(b []byte) []byte { h := sha256.Sum256(b); return h[:] }
	case -35, -38:
		return crypto.SHA384, func(b []byte) []byte { h := sha512.Sum384(b); return h[:] }
	case -36, -39:
		return crypto.SHA512, func(b []byte) []byte { h := sha512.Sum512(b); return h[:] }
	}
	return 0, nil
}

func stdSign(alg int, key crypto.Signer, tbs []byte) ([]byte, error) {
	switch alg {
	case -8:
		k, ok := key.(ed25519.PrivateKey)
		if !ok {
			return nil, fmt.Errorf("stdSign: key is %T", key)
		}
		return ed25519.Sign(k, tbs), nil
	case -7, -35, -36:
		k, ok := key.(*ecdsa.PrivateKey)
		if !ok {
			return nil, fmt.Errorf("stdSign: key is %T", key)
		}
		_, h := hashFor(alg)
		r, s, err := ecdsa.Sign(rand.Reader, k, h(tbs))
		if err != nil {
			return nil, err
		}
		n := (k.Curve.Params().N.BitLen() + 7) / 8
		out := make([]byte, 2*n)
		r.FillBytes(out[:n])
		s.FillBytes(out[n:])
		return out, nil
	case -37, -38, -39:
		k, ok := key.(*rsa.PrivateKey)
		if !ok {
			return nil, fmt.Errorf("stdSign: key is %T", key)
		}
		hf, h := hashFor(alg)
		return rsa.SignPSS(rand.Reader, k, hf, h(tbs), &rsa.PSSOptions{SaltLength: rsa.PSSSaltLengthEqualsHash, Hash: hf})
	}
	return nil, fmt.Errorf("stdSign: unsupported alg %d", alg)
}

// stdVerify: is sig a valid signature of tbs under pub in the RFC 9053 wire format?
func stdVerify(alg int, pub crypto.PublicKey, tbs, sig []byte) bool {
	switch alg {
	case -8:
		k, ok := pub.(ed25519.PublicKey)
		return ok && len(k) == ed25519.PublicKeySize && ed25519.Verify(k, tbs, sig)
	case -7, -35, -36:
		k, ok := pub.(*ecdsa.PublicKey)
		if !ok {
			return false
		}
		n := (k.Curve.Params().N.BitLen() + 7) / 8
		if len(sig) != 2*n {
			return false
		}
		_, h := hashFor(alg)
		return ecdsa.Verify(k, h(tbs), new(big.Int).SetBytes(sig[:n]), new(big.Int).SetBytes(sig[n:]))
	case -37, -38, -39:
		k, ok := pub.(*rsa.PublicKey)
		if !ok {
			return false
		}
		hf, h := hashFor(alg)
		return rsa.VerifyPSS(k, hf, h(tbs), sig, &rsa.PSSOptions{SaltLength: rsa.PSSSaltLengthEqualsHash}) == nil
	}
	return false
}
