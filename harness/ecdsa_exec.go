package main

import (
	"bytes"
	"crypto"
	"crypto/ecdsa"
	"crypto/rand"
	"encoding/asn1"
	"fmt"
	"io"
	"math/big"
	mrand "math/rand"

	cose "github.com/veraison/go-cose"
)

// asn1Stub: a crypto.Signer over a real ECDSA public key that returns the DER encoding of a chosen (r, s)
type asn1Stub struct {
	pub  *ecdsa.PublicKey
	r, s *big.Int
	raw  []byte // if set, returned verbatim
}

func (a asn1Stub) Public() crypto.PublicKey { return a.pub }
func (a asn1Stub) Sign(io.Reader, []byte, crypto.SignerOpts) ([]byte, error) {
	if a.raw != nil {
		return a.raw, nil
	}
	return asn1.Marshal(struct{ R, S *big.Int }{a.r, a.s})
}

// asn1Device answers like asn1Stub but from one output buffer that it reuses for every call (as a driver for a hardware device would):
// the first call returns DER(r, s), later calls DER(s, r).
type asn1Device struct {
	asn1Stub
	buf   [600]byte
	calls int
}

func (a *asn1Device) Sign(io.Reader, []byte, crypto.SignerOpts) ([]byte, error) {
	a.calls++
	r, s := a.r, a.s
	if a.calls > 1 {
		r, s = s, r
	}
	der, err := asn1.Marshal(struct{ R, S *big.Int }{r, s})
	if err != nil {
		return nil, err
	}
	return append(a.buf[:0], der...), nil
}

func algForCurve(c string) int {
	switch c {
	case "p256":
		return -7
	case "p384":
		return -35
	}
	return -36
}

func derOf(r, s *big.Int) []byte {
	b, _ := asn1.Marshal(struct{ R, S *big.Int }{r, s})
	return b
}

func init() {
	// render: the crypto.Signer path must turn ASN.1 (r, s) into fixed-width r || s
	execs["ecdsa-render"] = func(c J) J {
		curve := str(c["curve"])
		key := keyFor(curve + "-a").(*ecdsa.PrivateKey)
		r := new(big.Int).SetBytes(bytesOf(c["r"]))
		s := new(big.Int).SetBytes(bytesOf(c["s"]))
		if c["rneg"] == true {
			r.Neg(r)
		}
		alg := algForCurve(curve)
		if a, ok := c["alg"]; ok {
			alg = num(a)
		}
		ev := J{"op": "ecdsa-render", "curve": curve, "r": c["r"], "s": c["s"], "rneg": c["rneg"] == true, "alg": alg, "out": []int{}, "res": "n/a"}
		if p := guard(func() {
			sg, err := cose.NewSigner(cose.Algorithm(alg), &asn1Device{asn1Stub: asn1Stub{pub: &key.PublicKey, r: r, s: s}})
			if err != nil {
				ev["res"] = "factory-" + errClass(err)
				return
			}
			out, err := sg.Sign(rand.Reader, []byte("m"))
			ev["res"] = errClass(err)
			// the key signs something else next; the signature handed out before is looked at only now
			_, _ = sg.Sign(rand.Reader, []byte("another message"))
			if out != nil {
				ev["out"] = ints(out)
			}
		}); p != "" {
			ev["res"] = "panic"
		}
		return ev
	}
	// native: signatures of the native-key path and of the opaque crypto.Signer path over the same key
	execs["ecdsa-native"] = func(c J) J {
		curve := str(c["curve"])
		key := keyFor(curve + "-a").(*ecdsa.PrivateKey)
		alg := algForCurve(curve)
		msg := []byte(fmt.Sprintf("message-%d", num(c["i"])))
		ev := J{"op": "ecdsa-native", "curve": curve, "path": c["path"], "i": c["i"], "out": []int{}, "res": "n/a", "stdv": false, "ver": "n/a", "r": []int{}, "s": []int{}}
		var sk crypto.Signer = key
		if str(c["path"]) == "opaque" {
			sk = opaqueSigner{key}
		}
		if p := guard(func() {
			sg, err := cose.NewSigner(cose.Algorithm(alg), sk)
			if err != nil {
				ev["res"] = "factory-" + errClass(err)
				return
			}
			out, err := sg.Sign(rand.Reader, msg)
			ev["res"] = errClass(err)
			if err != nil {
				return
			}
			ev["out"] = ints(out)
			ev["stdv"] = stdVerify(alg, &key.PublicKey, msg, out)
			v, _ := cose.NewVerifier(cose.Algorithm(alg), &key.PublicKey)
			ev["ver"] = errClass(v.Verify(msg, out))
		}); p != "" {
			ev["res"] = "panic"
		}
		return ev
	}
	// accept: a genuinely valid (r, s) of a requested leading-zero class, offered to the verifier in a chosen rendering
	execs["ecdsa-accept"] = func(c J) J {
		curve := str(c["curve"])
		class := str(c["class"]) // normal | shortr | shorts
		rendering := str(c["rendering"])
		key := keyFor(curve + "-a").(*ecdsa.PrivateKey)
		alg := algForCurve(curve)
		n := (key.Curve.Params().N.BitLen() + 7) / 8
		_, h := hashFor(alg)
		rnd := mrand.New(mrand.NewSource(int64(num(c["seed"])) + 1))
		var msg []byte
		var r, s *big.Int
		for try := 0; ; try++ {
			msg = []byte(fmt.Sprintf("accept-%s-%d-%d", curve, rnd.Int63(), try))
			var err error
			r, s, err = ecdsa.Sign(rand.Reader, key, h(msg))
			if err != nil {
				fatal("ecdsa.Sign: %v", err)
			}
			lr, ls := len(r.Bytes()), len(s.Bytes())
			if class == "normal" && lr == n && ls == n {
				break
			}
			if class == "shortr" && lr < n {
				break
			}
			if class == "shorts" && ls < n {
				break
			}
			if class == "strail" && lr == n && ls == n && s.Bit(0) == 0 && new(big.Int).And(s, big.NewInt(255)).Sign() == 0 {
				break // s ends in a zero byte: the exact form minus its last byte is a prefix that zero-extends to it
			}
			if try > 2000000 {
				fatal("no signature of class %s found", class)
			}
		}
		rb, sb := r.Bytes(), s.Bytes()
		pad := func(b []byte, k int) []byte { return append(make([]byte, k-len(b)), b...) }
		exact := append(pad(rb, n), pad(sb, n)...)
		var sig []byte
		switch rendering {
		case "exact":
			sig = exact
		case "der":
			sig = derOf(r, s)
		case "stripr":
			sig = append(append([]byte{}, rb...), pad(sb, n)...)
		case "strips":
			sig = append(pad(rb, n), sb...)
		case "stripboth":
			sig = append(append([]byte{}, rb...), sb...)
		case "padr":
			sig = append(pad(rb, n+1), pad(sb, n)...)
		case "pads":
			sig = append(pad(rb, n), pad(sb, n+1)...)
		case "padboth":
			sig = append(pad(rb, n+1), pad(sb, n+1)...)
		case "padboth2":
			sig = append(pad(rb, n+2), pad(sb, n+2)...)
		case "swap":
			sig = append(pad(sb, n), pad(rb, n)...)
		case "empty":
			sig = []byte{}
		case "trunc1":
			sig = exact[:len(exact)-1]
		case "trunc2":
			sig = exact[:len(exact)-2]
		case "drop1":
			sig = exact[1:]
		case "ext1":
			sig = append(append([]byte{}, exact...), 0)
		case "ext2":
			sig = append(append([]byte{}, exact...), 0, 0)
		case "lead1":
			sig = append([]byte{0}, exact...)
		case "lead2":
			sig = append([]byte{0, 0}, exact...)
		case "halfr":
			sig = pad(rb, n)
		case "ext255", "ext256", "ext512", "ext65536":
			k := map[string]int{"ext255": 255, "ext256": 256, "ext512": 512, "ext65536": 65536}[rendering]
			sig = append(append([]byte{}, exact...), bytes.Repeat([]byte{0x5a}, k)...)
		case "lead256":
			sig = append(make([]byte, 256), exact...)
		case "twice":
			sig = append(append([]byte{}, exact...), exact...)
		default:
			fatal("unknown rendering %q", rendering)
		}
		ev := J{"op": "ecdsa-accept", "curve": curve, "class": class, "rendering": rendering, "r": ints(rb), "s": ints(sb), "sig": ints(sig), "res": "n/a", "resd": "n/a",
			"exactvalid": stdVerify(alg, &key.PublicKey, msg, exact)}
		if p := guard(func() {
			v, err := cose.NewVerifier(cose.Algorithm(alg), &key.PublicKey)
			if err != nil {
				ev["res"] = "factory-" + errClass(err)
				return
			}
			ev["res"] = errClass(v.Verify(msg, sig))
			if dv, ok := v.(cose.DigestVerifier); ok {
				ev["resd"] = errClass(dv.VerifyDigest(h(msg), sig))
			}
		}); p != "" {
			ev["res"] = "panic"
		}
		return ev
	}
}
