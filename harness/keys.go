package main

import (
	"crypto"
	"crypto/ecdsa"
	"crypto/ed25519"
	"crypto/elliptic"
	"crypto/rand"
	"crypto/rsa"
	"crypto/sha256"
	"crypto/x509"
	"encoding/hex"
	"encoding/json"
	"encoding/pem"
	"fmt"
	"math/big"
	"os"
	"path/filepath"
	"strings"
	"sync"

	cose "github.com/veraison/go-cose"
)

// Fixture file (committed, verified at load time).
type ecFixture struct {
	Curve string `json:"curve"`
	D     string `json:"d"`    // hex scalar
	ZX    int    `json:"zx"`   // leading zero bytes of x
	ZY    int    `json:"zy"`   // leading zero bytes of y
	ZD    int    `json:"zd"`   // leading zero bytes of d
	Name  string `json:"name"` // e.g. p256-zx1
}
type fixtures struct {
	RSA map[string]string `json:"rsa"` // bits -> PKCS#8 PEM
	EC  []ecFixture       `json:"ec"`
	Ed  []string          `json:"ed"` // hex seeds
}

var (
	fxOnce  sync.Once
	fx      fixtures
	rsaKeys = map[string]*rsa.PrivateKey{}
	ecKeys  = map[string]*ecdsa.PrivateKey{}
	edKeys  = map[string]ed25519.PrivateKey{}
)

func curveByName(n string) elliptic.Curve {
	switch n {
	case "p224":
		return elliptic.P224()
	case "p256":
		return elliptic.P256()
	case "p384":
		return elliptic.P384()
	case "p521":
		return elliptic.P521()
	}
	return nil
}

func ecFromScalar(c elliptic.Curve, d *big.Int) *ecdsa.PrivateKey {
	x, y := c.ScalarBaseMult(d.Bytes())
	return &ecdsa.PrivateKey{PublicKey: ecdsa.PublicKey{Curve: c, X: x, Y: y}, D: d}
}

func leadingZeros(v *big.Int, size int) int {
	return size - len(v.Bytes())
}

func loadFixtures() {
	fxOnce.Do(func() {
		dir := os.Getenv("VERIF_FIXTURES")
		if dir == "" {
			dir = "/verif/fixtures"
		}
		raw, err := os.ReadFile(filepath.Join(dir, "keys.json"))
		if err != nil {
			fatal("fixtures: %v", err)
		}
		if err := json.Unmarshal(raw, &fx); err != nil {
			fatal("fixtures: %v", err)
		}
		for bits, p := range fx.RSA {
			blk, _ := pem.Decode([]byte(p))
			k, err := x509.ParsePKCS8PrivateKey(blk.Bytes)
			if err != nil {
				fatal("fixtures rsa %s: %v", bits, err)
			}
			rk := k.(*rsa.PrivateKey)
			if want := strings.SplitN(bits, "e", 2)[0]; fmt.Sprint(rk.N.BitLen()) != want { // "2048e3": 2048 bits, public exponent 3
				fatal("fixtures rsa %s has %d bits", bits, rk.N.BitLen())
			}
			rsaKeys["rsa"+bits] = rk
		}
		for _, e := range fx.EC {
			c := curveByName(e.Curve)
			d, _ := new(big.Int).SetString(e.D, 16)
			k := ecFromScalar(c, d)
			size := (c.Params().BitSize + 7) / 8
			if leadingZeros(k.X, size) != e.ZX || leadingZeros(k.Y, size) != e.ZY || leadingZeros(k.D, size) != e.ZD {
				fatal("fixture %s: claimed leading zeros do not hold", e.Name)
			}
			ecKeys[e.Name] = k
		}
		for i, s := range fx.Ed {
			seed, _ := hex.DecodeString(s)
			edKeys[fmt.Sprintf("ed%d", i)] = ed25519.NewKeyFromSeed(seed)
		}
	})
}

func fatal(f string, a ...any) {
	fmt.Fprintf(os.Stderr, f+"\n", a...)
	os.Exit(2)
}

// keyFor returns the fixture private key named name (rsa2048, p256-a, ed0, ...).
func keyFor(name string) crypto.Signer {
	loadFixtures()
	if k, ok := rsaKeys[name]; ok {
		return k
	}
	if k, ok := ecKeys[name]; ok {
		return k
	}
	if k, ok := edKeys[name]; ok {
		return k
	}
	fatal("unknown key %q", name)
	return nil
}

// default key per algorithm; variant "b" gives a second key of the same kind
func keyNameForAlg(alg int, variant string) string {
	switch cose.Algorithm(alg) {
	case cose.AlgorithmES256:
		return "p256-" + variant
	case cose.AlgorithmES384:
		return "p384-" + variant
	case cose.AlgorithmES512:
		return "p521-" + variant
	case cose.AlgorithmEdDSA:
		if variant == "a" {
			return "ed0"
		}
		return "ed1"
	case cose.AlgorithmPS256, cose.AlgorithmPS384, cose.AlgorithmPS512:
		if variant == "a" {
			return "rsa2048"
		}
		return "rsa3072"
	}
	return ""
}

// ---- one-off fixture generation: harness fixtures > fixtures/keys.json -------------------

func genFixtures() {
	out := fixtures{RSA: map[string]string{}}
	for _, bits := range []int{1024, 2047, 2048, 3072} {
		var k *rsa.PrivateKey
		for {
			var err error
			k, err = rsa.GenerateKey(rand.Reader, bits)
			if err != nil {
				fatal("rsa: %v", err)
			}
			if k.N.BitLen() == bits {
				break
			}
		}
		der, _ := x509.MarshalPKCS8PrivateKey(k)
		out.RSA[fmt.Sprint(bits)] = string(pem.EncodeToMemory(&pem.Block{Type: "PRIVATE KEY", Bytes: der}))
	}
	for _, cn := range []string{"p224", "p256", "p384", "p521"} {
		c := curveByName(cn)
		size := (c.Params().BitSize + 7) / 8
		want := map[string][2]int{"a": {0, 0}, "b": {0, 0}, "zx1": {1, -1}, "zy1": {-1, 1}, "zx2": {2, -1}, "zy2": {-1, 2}}
		if cn == "p224" {
			want = map[string][2]int{"a": {0, 0}}
		}
		found := map[string]bool{}
		ctr := 0
		for len(found) < len(want) {
			ctr++
			h := sha256.Sum256([]byte(fmt.Sprintf("verif-fixture-%s-%d", cn, ctr)))
			h2 := sha256.Sum256(h[:])
			h3 := sha256.Sum256(h2[:])
			d := new(big.Int).SetBytes(append(append(h[:], h2[:]...), h3[:]...)[:size])
			d.Mod(d, new(big.Int).Sub(c.Params().N, big.NewInt(1)))
			d.Add(d, big.NewInt(1))
			k := ecFromScalar(c, d)
			zx, zy, zd := leadingZeros(k.X, size), leadingZeros(k.Y, size), leadingZeros(k.D, size)
			for name, w := range want {
				if found[name] {
					continue
				}
				ok := (w[0] == -1 || zx == w[0]) && (w[1] == -1 || zy == w[1])
				if (name == "a" || name == "b") && (zx != 0 || zy != 0 || zd != 0) {
					ok = false
				}
				if ok {
					found[name] = true
					out.EC = append(out.EC, ecFixture{Curve: cn, D: hex.EncodeToString(d.Bytes()), ZX: zx, ZY: zy, ZD: zd, Name: cn + "-" + name})
					break
				}
			}
		}
		if cn != "p224" {
			// small scalars: d with many leading zero bytes
			for _, dv := range []int64{1, 255, 65537} {
				d := big.NewInt(dv)
				k := ecFromScalar(c, d)
				out.EC = append(out.EC, ecFixture{Curve: cn, D: hex.EncodeToString(d.Bytes()), ZX: leadingZeros(k.X, size), ZY: leadingZeros(k.Y, size), ZD: leadingZeros(k.D, size), Name: fmt.Sprintf("%s-d%d", cn, dv)})
			}
		}
	}
	for i := 0; i < 3; i++ {
		h := sha256.Sum256([]byte(fmt.Sprintf("verif-ed-%d", i)))
		out.Ed = append(out.Ed, hex.EncodeToString(h[:]))
	}
	b, _ := json.MarshalIndent(out, "", " ")
	os.Stdout.Write(b)
}
