#!/bin/bash
# validate every candidate mutant under $1 (default /tmp/mut/out) against /repo HEAD:
#   suite passes with patch, demo fails with patch, demo passes without patch
src=${1:-/tmp/mut/out}
export GOFLAGS=-mod=mod GOPROXY=off GOSUMDB=off GOTOOLCHAIN=local
for d in $src/C*/*/; do
  [ -f "$d/patch.diff" ] || continue
  name=$(basename $(dirname $d))/$(basename $d)
  wt=$(mktemp -d /tmp/valwt.XXXXXX)
  git -C /repo worktree add -q --detach "$wt" HEAD
  demo=$(ls $d/*_test.go | head -1)
  cp "$demo" "$wt/zz_demo_test.go"
  base=$(cd $wt && go test -vet=off -count=1 -run 'Demo|demo' . 2>&1 | tail -1 | cut -c1-40)
  if git -C "$wt" apply "$d/patch.diff" 2>/dev/null || (cd "$wt" && patch -p1 -s --fuzz=3 < "$d/patch.diff" >/dev/null 2>&1); then
    withp=$(cd $wt && go test -vet=off -count=1 -run 'Demo|demo' . 2>&1 | tail -1 | cut -c1-40)
    rm -f "$wt/zz_demo_test.go"
    suite=$(cd $wt && go test -vet=off -count=1 ./... 2>&1 | tail -1 | cut -c1-40)
  else
    withp="PATCH-FAILED"; suite="-"
  fi
  echo "$name | demo-without: $base | demo-with: $withp | suite-with: $suite"
  git -C /repo worktree remove --force "$wt"; rm -rf "$wt"
done
