#!/usr/bin/env python3
"""Regenerates section 13 of DESIGN.md from the committed evidence files and seeded/MATRIX.txt."""
import json, os, re, glob
V = os.path.dirname(os.path.dirname(os.path.abspath(__file__)))

MODULES = [
 ("CborData.tla", "byte-level CBOR: item records, `Enc` with per-item head widths, recursive-descent parser (indefinite lengths, tags, simple values, floats, malformed input), `IsDetItem`, `Canon`, `NormW`, tree paths `Paths/Get/Put`"),
 ("CoseHeaders.tla", "RFC 9052 3.1 / RFC 9338 parameter rules on parsed maps: `ParamOK`, `ValidParams`, `CritOK`, `WFProt`, `WFUnprot`, `CrossIVOK`, `WFSig3`; the documented-limits predicates of C07"),
 ("CoseStruct.tla", "envelope shapes per kind, `WFCose` (C05), `Conforming` (C07), `Sig1Structure`, `SigStructure`, `CountersignStructure`, `TbsOf`/`SigBytesOf`/`SignerProtOf` over wire bytes, `ReencodePrediction` and `ClearedPrediction` (C09)"),
 ("GoValues.tla", "dynamic-type model of Go header values (10 integer types, Algorithm, string, []byte, nil []byte, []any, map, bool, nil, countersignature objects, simple, invalid kinds), `ToItem`, `InModel`, `ImageOf(kind, message)`"),
 ("CoseSystem.tla", "in-memory layers: `LayerProtItem` (raw bytes preferred), `AlgOfBucket` (lookup by label value), `AlgEq`, `WireAlgIs`, spy-call helpers"),
 ("CoseModel.tla", "life cycle of a Sign1 / untagged Sign1 / standalone Signature object as a state machine (`Step`): sign, verify, marshal, unmarshal, caller edits, bytes rewritten in transit; symbolic keys/signatures; nine properties model-checked"),
 ("CsModel.tla", "life cycle of a countersignature (RFC 9338): parent, countersignature object, abbreviated bytes, wire; making (full/abbreviated), verifying, attaching, serialising, parsing, caller edits, bytes rewritten in transit, moving signature bytes between the two forms; nine properties model-checked (core scope exhaustively, full scope to a bounded number of steps)"),
 ("SignModel.tla", "life cycle of a COSE_Sign message with two signature slots: signing with a list of signers (failing / empty-handed ones), verifying with lists of 1-3 verifiers, serialising, parsing, caller edits of body, slot signatures (emptied, garbage, the other slot's bytes) and slot algorithms; eight properties model-checked (core scope exhaustively: 95 256 states / 22.4 M transitions; full scope to a bounded depth)"),
 ("KeyModel.tla", "life cycle of a COSE_Key object: built from a private / public key (EC2 P-256, OKP Ed25519, two pairs each), caller restrictions (alg, key_ops incl. empty, private part dropped), serialise, parse, Signer(), Verifier(), sign, verify with real signatures; five properties model-checked exhaustively (2 192 400 states / 52.6 M transitions)"),
 ("EnvModel.tla", "life cycle of a hash envelope: produced by SignHashEnvelope (hash id / digest length / optional fields of the right and of a wrong type / base headers that smuggle governed labels / failing signer), consumed by VerifyHashEnvelope, handled as the ordinary COSE_Sign1 it is (decode, verify, holder edits of every governed parameter, re-sign, serialise), rewritten in transit (incl. a non-deterministic spelling of the protected map); nine properties model-checked to a bounded number of steps; `Gen_Env` / `Trace_Env` replay and judge its behaviours (owner C12; stages in C03 and C09)"),
 ("CoseKey.tla", "COSE_Key: `AcceptedKeyOK`, `SizesOK`, `CurveOKFor`, `DeriveAlg`, `SignerAllowed`, `VerifierAllowed`"),
 ("CoseCrypto.tla", "`NewSignerVerdict` / `NewVerifierVerdict` decision tables, `HashOf`, `RenderRS` / `I2OSP`"),
 ("Mutations.tla, CoseBases.tla", "structural mutation operators (Appendix B), valid re-spellings, base message trees"),
 ("FixtureData.tla", "generated table of the committed fixture keys and their leading-zero classes"),
 ("TraceKit.tla", "plumbing of all trace-validation modules (`Note`, reject counter, acceptance)"),
 ("Gen_*.tla", "generators (one state machine per case family; invariants = the property on the specification; `Emit` prints cases)"),
 ("Trace_*.tla", "judges: `Fails(event)` = set of violated requirements of the property"),
]

GAPS = [
 "These are missed alarms of the machinery, recorded as the brief asks; none is a finding against go-cose. Each line names the device that would close the gap (all are extensions of an existing generator or judge, none needs a hook).",
 "",
 "* **C01-k** (resumable `SignMessage.Sign` keeps a stale first slot after a failed first call and changed inputs): `Trace_Sg` says nothing about signing a message that already carries signature bytes; it should demand that a successful `Sign` leaves every slot verifying (C01) - `SignModel` already generates the behaviour (failing second signer, body edit, sign again).",
 "* **C01-l** (new x5chain / x5bag validation accepts `[][]byte` on encode, refuses the decoder's `[]any` of bstr): `GoValues` has no `[][]byte` value kind and the header grid has no labels 32 / 33; add both to `Gen_C13` / `Gen_C01` pools.",
 "* **C02-k** (decoder reuses the receiver's raw-header buffers; a by-value copy of an earlier decoded message is overwritten by the next decode into the same variable): device (vi) of round 5 (value kept while its variable is decoded into again) exists for keys and headers only; add it to the message flows of `Gen_C02Mem` / `Gen_C19`.",
 "* **C03-k** (unprotected `alg` consulted when the protected bucket has none): the C04 grid has the unprotected-alg column, the C03 wire mutations do not add an unprotected `alg` to messages verified with external data; add the edit to `Gen_Wire(mut)`.",
 "* **C04-k** (`Headers.marshal()` pins `RawProtected` on constructed objects): needs the sequence sign, serialise, edit `alg` in the map, clear the signature, sign with a key of the new algorithm; `CoseModel` generates it, but `Trace_Model` tags the symptom C18 (marshal modified the message) and C02; add the C04 tag (key reached while the bytes it is handed name another algorithm) to the model stage.",
 "* **C04-l** (protected map decoded into the caller's existing map; `h''` keeps the old entries): decode into a used destination is exercised with non-empty protected buckets only; add an image with a zero-length protected bucket after one with `alg` to the used-destination device of C04 / C19.",
 "* **C05-k** (bare `ProtectedHeader.UnmarshalCBOR` accepts trailing bytes): C05 feeds its mutation space to the five message / signature decoders; the bare header decoders get only the header grid images. Feed `TopMutations` (trailing bytes, truncation) of protected / unprotected buckets to the two header decoders.",
 "* **C06-k** (CWT-claims validation panics on a null date): label 15 with a claims map (and null / undefined inside it) is not in the value pool of `Gen_C13` / `Gen_C05` bases.",
 "* **C07-k** (decoded list of two or more countersignatures: every pointer is the last entry): `wireflow` verifies the message and re-encodes; it does not verify each nested countersignature of a *decoded list* with its own key. Add per-entry verification to the wire flow (the re-encoding check of C09 should then see the duplicated entry as well).",
 "* **C08-k** (bare header encoders return shared package-level slices for empty buckets): the harness overwrites *receive* buffers (round 5 device i) but not the byte slices the encoders return; scribble on every returned encoding in `hdrgrid` before the next encoding is compared.",
 "* **C08-l** (`Key.MarshalCBOR` pads a short coordinate in place when the slice has spare capacity): fixture keys are built with exact-capacity slices; build coordinates as sub-slices of one `04 || X || Y` buffer and with spare capacity in `keyrt`.",
 "* **C10-l** (hand-written bstr head: a 256-byte parent signature gets `58 00`): `Gen_C10` uses symbolic 10-byte signatures; add parents signed by PS256 / 2048 (256 bytes) and padded symbolic signatures of 255 / 256 / 65535 / 65536 bytes - the structure comparison of `Trace_C10` then sees the head.",
 "* **C12-k** (decoder limits 8 levels / 32 pairs / 1024 elements, no matching encoder limits): the wide / deep structures of round 5 (iv) go through C01 / C07, not through the envelope producer; add a base header of 33+ entries and a deep value to `Gen_C12`.",
 "* **C14-k** (tags forbidden anywhere inside a COSE_Key): key round trips carry no tagged extra-parameter values; add `cbor.Tag`, `time.Time` and big integers to the optional parameters of `Gen_C14`.",
 "* **C18-l** (countersignature verification writes `RawProtected` of a constructed parent passed by pointer): `CsModel` deliberately abstracts from the parent's retained raw bytes; compare the *full* projection of the parent before and after every verifying step in `Trace_Cs` (read-only is independent of the abstraction).",
 "* **C20-k** (a signer that is also a `Verifier` and rejects its own output leaves the signature stored): the symbolic signers implement `Signer` only; add a signer kind that implements both and whose `Verify` fails.",
]

PIPE = {
 "C01": "Gen_C01 -> memflow -> Trace_C01",
 "C02": "Gen_Wire(respell) -> wireflow -> Trace_Wire[C02]; Gen_C02Mem -> memflow -> Trace_C02Mem",
 "C03": "Gen_Wire(mut) -> wireflow -> Trace_Wire[C03]; CoseModel MC + Gen_Model -> memflow -> Trace_Model[C03:]; CsModel stage [C03:]; SignModel stage [C03:]; EnvModel stage [C03:]",
 "C04": "Gen_C04 -> memflow -> Trace_C04; CoseModel stage [C04:]; CsModel stage [C04:]",
 "C05": "Gen_C05 (+ byte-mutation driver) -> C05 exec (all five decoders) -> Trace_C05",
 "C06": "Gen_C05 + Gen_C15 + Gen_C13 images + byte-mutation driver -> nopanic -> Trace_C06",
 "C07": "Gen_Wire(respell) -> wireflow -> Trace_Wire[C07]",
 "C08": "Gen_C08 + Gen_C13 -> hdrgrid (6 encodings x 2 processes) -> Trace_C08; Gen_C08Seq + Gen_C12 producers -> memflow -> Trace_C08Seq",
 "C09": "Gen_Wire(respell) -> wireflow -> Trace_Wire[C09]; CoseModel stage [C09:]; CsModel stage [C09:]; EnvModel stage [C09:]",
 "C10": "Gen_C10 -> memflow -> Trace_C10; CsModel MC + Gen_Cs -> memflow -> Trace_Cs[C10:]",
 "C11": "Gen_C11 -> memflow -> Trace_C11; SignModel MC + Gen_Sg -> memflow -> Trace_Sg[C11:]",
 "C12": "Gen_C12 -> memflow (+ sessions: one world, one verifier) -> Trace_C12; EnvModel MC + Gen_Env -> memflow -> Trace_Env[C12:]",
 "C13": "Gen_C13 -> hdrgrid -> Trace_C13",
 "C14": "Gen_C14 (toy-field MC + fixtures) + keyrt driver -> keyrt -> Trace_C14; KeyModel stage [C14:]",
 "C15": "Gen_C15 -> keydec -> Trace_C15; KeyModel MC + Gen_Key -> memflow -> Trace_Key[C15:]",
 "C16": "Gen_C16 -> ecdsa-render / ecdsa-native / ecdsa-accept -> Trace_C16",
 "C17": "Gen_C17 -> factory / digest -> Trace_C17",
 "C18": "Gen_C18 (thread model MC, schedules) -> conc (gated goroutines); Gen_C18Seq -> memflow; racestress under -race -> Trace_C18; KeyModel stage [C18:]",
 "C19": "Gen_C19 -> memflow -> Trace_C19; CoseModel stage [C19:]; CsModel stage [C19:]",
 "C20": "Gen_C20 -> memflow -> Trace_C20; CoseModel stage [C20:]; CsModel stage [C20:]; SignModel stage [C20:]",
}


def evidence_rows():
    rows = []
    for p in sorted(PIPE):
        f = os.path.join(V, "evidence", p + ".json")
        if not os.path.exists(f):
            continue
        d = json.load(open(f))
        c = d["coverage"]
        rows.append("| %s | %s | %s | %d | %d | %d | %d | %.0f s |" % (p, PIPE[p], d["tier"], c["states"], c["transitions"], c["evaluations"], c["distinct_nontrivial"], d["wall_s"]))
    return rows


def matrix_rows():
    path = os.path.join(V, "seeded", "MATRIX.txt")
    rows = []
    if not os.path.exists(path):
        return rows
    extra = {}
    xp = os.path.join(V, "seeded", "CROSS.txt")
    if os.path.exists(xp):
        for l in open(xp):
            parts = l.split()
            if len(parts) >= 3:
                extra.setdefault(parts[0], []).append((parts[1], " ".join(parts[2:])))
    for l in open(path):
        parts = l.split()
        if len(parts) < 3:
            continue
        name, prop, ex = parts[0], parts[1], parts[2]
        reasons = [x.replace("reason=", "") for x in parts[3:] if x.startswith("reason=")]
        meta = json.load(open(os.path.join(V, "seeded", name, "meta.json")))
        summ = (meta.get("summary") or "").replace("\n", " ").replace("|", "/")
        if len(summ) > 230:
            summ = summ[:227] + "..."
        caught = "**caught** by %s: %s" % (prop, ", ".join(reasons[:2])) if ex == "exit=1" else ("NOT caught by %s" % prop)
        for (p2, r2) in extra.get(name, []):
            caught += "; caught by %s: %s" % (p2, r2)
        rows.append("| %s | %s | %s |" % (name, summ, caught))
    return rows


def main():
    s = open(os.path.join(V, "DESIGN.md")).read()
    marker = "## 13. As built"
    if marker in s:
        s = s[:s.index(marker)]
        tail = ""
    i = s.find("## Appendix A")
    head, app = (s[:i], s[i:]) if i >= 0 else (s, "")
    sec = [marker + ": modules, pipelines, measurements, seeded changes", ""]
    sec += ["### 13.1 Specification modules (`/verif/spec`)", "", "| module | content |", "|---|---|"]
    sec += ["| `%s` | %s |" % m for m in MODULES]
    n_tla = len(glob.glob(os.path.join(V, "spec", "*.tla")))
    n_lines = sum(len(open(f).read().splitlines()) for f in glob.glob(os.path.join(V, "spec", "*.tla")))
    sec += ["", "%d modules, %d lines of TLA+." % (n_tla, n_lines), ""]
    sec += ["### 13.2 Pipelines and measured coverage of the committed evidence", "",
            "`./check <ID> --tier quick|thorough [--replay file]`; `VERIF_SEED` seeds TLC `-simulate`, drivers and sampling; `VERIF_REPO` selects the tree under test "
            "(default `/repo`; runs against another tree never overwrite the committed evidence). Stages: GEN (TLC, invariants of the generator module are model-checked while "
            "cases are enumerated) -> EXEC (`harness exec <op>`, Go binary rebuilt from the tree under test on every run) -> JUDGE (TLC, sharded trace validation) -> report.",
            "", "| property | pipeline | tier | TLC distinct states | TLC transitions | events judged | distinct non-trivial | wall |", "|---|---|---|---|---|---|---|---|"]
    sec += evidence_rows()
    sec += ["", "Thorough tier, measured on this sandbox (16 cores, 62 GB; wall time / peak memory of the orchestrator process): "
            "C17 10 s / 0.3 GB, C16 57 s / 1.2 GB, C14 81 s / 2.3 GB, C13 55 s / 2.5 GB, C07 95 s / 3.1 GB, C05 331 s / 15 GB, C15 196 s / 6.9 GB, C12 216 s / 9.4 GB, "
            "C20 769 s / 28 GB, C18 563 s / 25 GB, C08 147 s / 4.6 GB, C06 521 s / 21 GB, C02 243 s / 5.1 GB, C09 704 s / 25 GB, C01 582 s / 35 GB, C04 630 s / 27 GB, "
            "C19 880 s / 33 GB, C11 1326 s / 35 GB, C03 829 s / 22 GB, C10 817 s / 21 GB (the last three measured while the seeded-change matrix was running on 4 more cores). "
            "Two thorough configurations were cut back after they exhausted the memory of the sandbox (pairs of wire edits over four base messages: 2.4 M cases; "
            "20 000 random behaviours of the countersignature / COSE_Sign models): the bounds in `lib/props.py` are the measured ones."]
    sec += ["", "### 13.3 Harness executors (`/verif/harness`, module `verifharness`, `replace github.com/veraison/go-cose => <tree>`)", "",
            "* `C05`: bytes to all five message/signature decoders. `hdrgrid`: build the in-memory structure of a case, encode it 6 times (+ a sibling, to detect shared output buffers), decode the specification's image, decode the own output and project it.",
            "* `wireflow`: install standard-library signatures over the specification's Sig_structure into TLC-made wire bytes (placeholders), decode, verify through recording wrappers of the built-in verifiers, re-encode twice, clear raw bytes in every layer and re-encode.",
            "* `memflow`: interpreter for API programs (new / sign / verify / marshal / unmarshal / helpers / countersign (full, abbreviated) / attach-extract nested countersignatures / hash envelope / caller edits / buffer rewrites / probes) with symbolic (`sym`) signers and verifiers whose pseudo signature binds key name and content, wrappers of the built-in ones, fault injection and budgeted entropy sources; records result class, callback log (inputs, returned values), returned bytes and the null-free projection of the touched object after every step.",
            "* `keydec`, `keyrt`: COSE_Key decoder grid and key round trips. `factory`, `digest`, `ecdsa-*`: factories, digest entry points, ECDSA renderings. `conc`, `racestress`: gated schedule replay (GOMAXPROCS(1), callbacks as yield points) and ungated stress for `-race`. `nopanic`: all 9 decoding entry points and follow-ups under `recover()` and a deadline.",
            "* Fixtures: `/verif/fixtures/keys.json` (RSA 1024/2047/2048/3072; EC scalars per curve with full, 1- and 2-byte-short x / y and tiny d; Ed25519 seeds), verified at load.", ""]
    sec += ["### 13.4 Seeded changes and which check catches which", "",
            "238 changes to go-cose that break a property while compiling and passing the repository's 809 tests, each written by a fresh sub-agent that saw only the property text and a scratch "
            "worktree (round 1, suffix a/b: pinned tree, 3 re-based by hand onto the repaired tree, 1 dropped because the nil-bstr repair neutralised it; rounds 2-6, suffixes c/d, e/f, g/h, i/j, k/l: "
            "repaired tree; from round 3 on the brief asked for subtler mechanisms - state kept between calls, values with their own encoders, first-call effects, pointer / value paths, aliasing, "
            "error paths - and from round 3 / 5 on it listed the mechanisms already used for the property and asked for others; one round-4 candidate was dropped because the existing suite fails with it). "
            "Each was confirmed here (demo fails with the patch, passes without, suite passes with it: `tools/validate_mutants.sh`) and is kept as `seeded/<id>/{patch.diff, demo_test.go, meta.json}`. "
            "`tools/matrix_par.sh` (or `tools/matrix_round.sh` from a `vp run` snapshot) applies each to a scratch worktree and runs the owning property's quick check (`VERIF_REPO`); `/repo` itself is never modified. "
            "Missed by the owning check when first run: 3 of 39 (round 1), 12 of 40 (round 2), 14 of 40 (round 3), 19 of 39 (round 4), 24 of 40 (round 5), 20 of 40 (round 6) - the later rounds were aimed at what the "
            "earlier ones had shown the checks to cover. Every miss of rounds 1-5 led to a strengthening of the generator, harness or judge of the owning property (git history of `/verif`; summarised in section 0 "
            "and in the as-built notes of section 6); after each of those rounds every change of all rounds so far was reported by its owning property's quick check (one, C03-j, only in some runs: its effect "
            "needs a particular interleaving inside one verifier; C18 reports it in every run). **Round 6 is only partly worked off** (the session ended): the hash-envelope life-cycle model (`EnvModel`, "
            "section 0) and the COSE_Key life-cycle stage added to C18 and an emptied-but-not-nil parent signature in the refuse flow of `Gen_C10` turned C03-l, C09-k, C18-k and C10-k into reported changes; the rows marked NOT caught below are open gaps, listed with what each needs in section 13.5. "
            "The table lists the reasons printed (first two) and sibling checks confirmed to report the change as well.", "",
            "| id | change | outcome of the owning property's quick check |", "|---|---|---|"]
    sec += matrix_rows()
    sec += ["", "### 13.5 Open gaps after round 6 (changes the owning quick check does not report yet, and what each needs)", ""] + GAPS
    sec += ["", "---------------------------------------------------------------------------", "", ""]
    out = head + "\n".join(sec) + app
    open(os.path.join(V, "DESIGN.md"), "w").write(out)
    print("section 13 written: %d evidence rows, %d seeded rows" % (len(evidence_rows()), len(matrix_rows())))


if __name__ == "__main__":
    main()
