#!/bin/bash
# usage: tools/matrix_round.sh <out-file> <glob of seeded dirs, e.g. 'C*-[kl]'> [jobs] [tier]
# like matrix_par.sh, but runs from the directory it is started in (a snapshot of /verif under `vp run`), so that editing /verif
# meanwhile does not disturb the rows
out=$1; pat=$2; jobs=${3:-4}; tier=${4:-quick}
home=$(pwd)
: > "$out"
ls -d $home/seeded/$pat/ | xargs -P "$jobs" -I{} bash -c '
  d={}; name=$(basename $d); id=${name%%-*}
  wt=$(mktemp -d /tmp/mutwt.XXXXXX)
  git -C /repo worktree add -q --detach "$wt" HEAD || exit 2
  if git -C "$wt" apply "$d/patch.diff" 2>/dev/null || (cd "$wt" && patch -p1 -s --fuzz=3 < "$d/patch.diff"); then
    o=$(cd '"$home"' && VERIF_REPO="$wt" ./check "$id" --tier '"$tier"' 2>&1 | grep -E "^(VIOLATION|KNOWN-FINDING|INFRA)|JUDGE" | head -8; echo "exit=${PIPESTATUS[0]}")
  else o="PATCH-DOES-NOT-APPLY"; fi
  git -C /repo worktree remove --force "$wt" 2>/dev/null; rm -rf "$wt"
  ex=$(echo "$o" | grep -o "exit=[0-9]*" | tail -1)
  reasons=$(echo "$o" | grep -o "reason=[^ ]*" | sort -u | head -4 | tr "\n" " ")
  echo "$name $id $ex $reasons $(echo "$o" | grep -o "PATCH-DOES-NOT-APPLY")" >> '"$out"'
'
sort -o "$out" "$out"
