#!/bin/bash
# usage: tools/matrix.sh <dir-with-Cxx/{a,b}/patch.diff> [tier]  -- run every mutant against its own property's check
src=${1:-/verif/seeded}; tier=${2:-quick}
for d in $src/*/; do
  [ -f "$d/patch.diff" ] || continue
  id=$(python3 -c "import json,sys; print(json.load(open('$d/meta.json'))['property'])" 2>/dev/null || basename $(dirname $d))
  out=$(/verif/tools/mutant.sh "$d/patch.diff" "$id" "$tier" 2>&1)
  ex=$(echo "$out" | grep -o "exit=[0-9]*" | tail -1)
  reasons=$(echo "$out" | grep -o "reason=[^ ]*" | sort -u | head -4 | tr '\n' ' ')
  echo "$(basename $d) $id $ex $reasons $(echo "$out" | grep -o 'PATCH-DOES-NOT-APPLY\|MUTANT-DOES-NOT-BUILD')"
done
