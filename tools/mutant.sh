#!/bin/bash
# usage: tools/mutant.sh <patch.diff> <ID> [tier]   -- run ./check ID against a scratch worktree of /repo HEAD with the patch applied
# (scratch worktree under /tmp, removed afterwards; /repo itself is not modified)
set -u
patch=$(readlink -f "$1"); id=$2; tier=${3:-quick}
wt=$(mktemp -d /tmp/mutwt.XXXXXX)
git -C /repo worktree add -q --detach "$wt" HEAD || exit 2
cleanup() { git -C /repo worktree remove --force "$wt" 2>/dev/null; rm -rf "$wt"; }
trap cleanup EXIT
if ! git -C "$wt" apply "$patch" 2>/dev/null; then
  if ! (cd "$wt" && patch -p1 -s --fuzz=3 < "$patch"); then echo "PATCH-DOES-NOT-APPLY"; exit 3; fi
fi
(cd "$wt" && GOFLAGS=-mod=mod GOPROXY=off go build ./... ) || { echo "MUTANT-DOES-NOT-BUILD"; exit 3; }
cd /verif && VERIF_REPO="$wt" ./check "$id" --tier "$tier" 2>&1 | grep -E "^(VIOLATION|KNOWN-FINDING|INFRA)|JUDGE" | head -8
echo "exit=${PIPESTATUS[0]}"
