#!/bin/bash
# usage: tools/matrix_par.sh <out-file> [jobs] [tier] -- every seeded change against its own property's check, several at a time
out=$1; jobs=${2:-4}; tier=${3:-quick}
: > "$out"
ls -d /verif/seeded/C*/ | xargs -P "$jobs" -I{} bash -c '
  d={}; name=$(basename $d); id=${name%%-*}
  o=$(/verif/tools/mutant.sh "$d/patch.diff" "$id" '"$tier"' 2>&1)
  ex=$(echo "$o" | grep -o "exit=[0-9]*" | tail -1)
  reasons=$(echo "$o" | grep -o "reason=[^ ]*" | sort -u | head -4 | tr "\n" " ")
  echo "$name $id $ex $reasons $(echo "$o" | grep -o "PATCH-DOES-NOT-APPLY\|MUTANT-DOES-NOT-BUILD")" >> '"$out"'
'
sort -o "$out" "$out"
