#!/usr/bin/env python3
"""Regenerates /verif/MANIFEST.json from the table below (python3 tools/mkmanifest.py)."""
import json, os
V = os.path.dirname(os.path.dirname(os.path.abspath(__file__)))
TECH = "explicit TLA+ spec; TLC model checking + TLC-generated cases replayed into the real code + TLC trace validation of every recorded event"
NOTE = ("Oracle = /verif/spec/*.tla written from RFC 8949/9052/9053/9338 and the property text; TLC 1.8.0; Go standard-library crypto trusted; "
        "bounded to the constants of the generator configs (see evidence coverage.rule); no coverage feedback.")
C = {
 "C05": ("TLC explores the structural-mutation state space of valid COSE messages exhaustively (single and, per tier, double mutations at every position of the CBOR tree, all kinds), checks spec-level invariants (bases conforming, Conforming => WellFormed, kinds disjoint) and emits every case; each byte string is offered to all five real decoders; TLC validates every recorded event: accepted => WellFormedCose(kind, bytes) decided by the byte-level TLA+ parser and the RFC 9052 3.1 rules.", "6 C05"),
 "C13": ("TLC enumerates the header grid (labels x value kinds x bucket x 10 Go integer spellings, pair cells for IV/Partial IV within and across buckets, crit x present label, duplicate labels under two Go types) embedded in every structure with headers, and derives each cell's wire image; the real encoder runs on the in-memory value and the real decoder on the image; TLC validates every event: produced/accepted => rules hold, and encode verdict = decode verdict for every in-model cell (hence independent of spelling).", "6 C13"),
}
BUILT = [k for k in sorted(C)]
checks = []
for pid in BUILT:
    text, ref = C[pid]
    checks.append(dict(property_id=pid, quick_cmd="./check %s --tier quick" % pid, thorough_cmd="./check %s --tier thorough" % pid,
                       evidence_file="/verif/evidence/%s.json" % pid, replay_cmd_template="./check %s --replay {path}" % pid,
                       engine="tlc-conformance", level_claimed=dict(category="model_checking", text=text, design_ref="DESIGN.md section " + ref),
                       level_note=NOTE, technique=TECH))
m = dict(version=1, setup_cmd="./check --setup",
         hooks=dict(guard="verif", enable="no hooks are needed: every property is observed at the public API (build tag 'verif' reserved, unused)",
                    baseline_off_cmd="cd /repo && GOFLAGS=-mod=mod go test -vet=off -count=1 ./...", source_commits=[], add_only=True),
         engines=[dict(name="tlc-conformance", path="/verif/check", serves_properties=BUILT,
                       kind_free_text="explicit TLA+ specification (spec/*.tla) used three ways with TLC: model checking of the property on the spec, exhaustive/simulated generation of cases and behaviours replayed into the real code by a Go harness (harness/), and trace validation of every recorded implementation event (Trace_*.tla)")],
         checks=checks,
         notes="See DESIGN.md. Exit 0/1/2 = held / violation / infrastructure. known_findings.json lists repaired and open genuine defects. VERIF_REPO overrides the tree under test (default /repo).",
         not_applicable=[dict(property_id="C%02d" % i, reason="check not built yet (work in progress; to be claimed once its pipeline exists)")
                         for i in range(1, 21) if "C%02d" % i not in BUILT])
json.dump(m, open(os.path.join(V, "MANIFEST.json"), "w"), indent=1)
print("MANIFEST: %d checks" % len(checks))
