#!/usr/bin/env python3
"""Regenerates /verif/MANIFEST.json from the table below (python3 tools/mkmanifest.py)."""
import json, os
V = os.path.dirname(os.path.dirname(os.path.abspath(__file__)))
TECH = "explicit TLA+ spec; TLC model checking + TLC-generated cases replayed into the real code + TLC trace validation of every recorded event"
NOTE = ("Oracle = /verif/spec/*.tla written from RFC 8949/9052/9053/9338 and the property text; TLC 1.8.0; Go standard-library crypto trusted; "
        "bounded to the constants of the generator configs (see evidence coverage.rule); no coverage feedback.")
C = {
 "C05": ("TLC explores the structural-mutation state space of valid COSE messages exhaustively (single and, per tier, double mutations at every position of the CBOR tree, all kinds), checks spec-level invariants (bases conforming, Conforming => WellFormed, kinds disjoint) and emits every case; each byte string is offered to all five real decoders; TLC validates every recorded event: accepted => WellFormedCose(kind, bytes) decided by the byte-level TLA+ parser and the RFC 9052 3.1 rules.", "6 C05"),
 "C13": ("TLC enumerates the header grid (labels x value kinds x bucket x 10 Go integer spellings, pair cells for IV/Partial IV within and across buckets, crit x present label, duplicate labels under two Go types) embedded in every structure with headers, and derives each cell's wire image; the real encoder runs on the in-memory value and the real decoder on the image; TLC validates every event: produced/accepted => rules hold, and encode verdict = decode verdict for every in-model cell (hence independent of spelling).", "6 C13"),
 "C08": ("TLC enumerates multi-entry in-memory header buckets (subsets of a pool whose bytewise key order disagrees with insertion order, mixed Go integer spellings, nested maps/arrays, countersignature values) plus the C13 grid, embedded in every structure, checks on the spec that the canonical image is deterministic CBOR, and emits each with its canonical image; the real encoder runs 6 times in each of 2 processes; TLC validates every event: identical bytes, equal to the canonical image, deterministic (also inside protected bstrs), decodable, decoded value has the same image.", "6 C08"),
 "C07": ("TLC enumerates conforming messages of every kind (attached/detached, with/without alg+external data, 1-2 signers, standalone signature, nested countersignatures single/list, protected-size classes 23/24/255/256) and every encoder choice inside them (each head at each legal width, map key orders, h''/h'a0', bulk variants, pairs), checks on the spec that choices stay Conforming, and derives each signer's Sig_structure from the wire bytes; the harness signs it with the Go standard library (independent implementation), installs the signature, and runs the real decoder and built-in verifier; TLC validates: Conforming => accepted, and verifies when every signer is valid.", "6 C07"),
 "C02": ("Same generated space as C07; a recording verifier captures the exact bytes the library hands to Verifier.Verify for every signer; TLC validates each recorded call against Sig1Structure/SigStructure computed by the byte-level TLA+ parser from the received wire bytes (protected bstr as on the wire with only its length prefix normalised, nil/empty external equal, tag and unprotected bucket contribute nothing) and against the signature bytes on the wire.", "6 C02"),
 "C03": ("TLC enumerates validly signed messages of every kind and every single (thorough: double) edit: structural mutation at every tree position, whole-message edits, signature-length changes and renderings, in-place signature corruption, signatures made over other external data / payload / context / signer / key, verification under other external data; cryptoValid is computed by the standard library over the Sig_structure the specification derives from the received bytes (cross-checked by TLC); TLC validates verify = nil <=> count matches and every signer is valid and agrees on alg.", "6 C03"),
 "C09": ("Same generated space as C07; each accepted wire message is decoded and re-encoded untouched, twice, and after discarding the retained raw bytes in every layer; TLC validates the output against ReencodePrediction (buckets of every layer byte-identical; only payload/signature/signatures-array heads shortest), identity for deterministic input, signatures still verifying, and the cleared form being a fixed point of decode/encode.", "6 C09"),
}
BUILT = [k for k in sorted(C)]
checks = []
for pid in BUILT:
    text, ref = C[pid]
    checks.append(dict(property_id=pid, quick_cmd="./check %s --tier quick" % pid, thorough_cmd="./check %s --tier thorough" % pid,
                       evidence_file="/verif/evidence/%s.json" % pid, replay_cmd_template="./check %s --replay {path}" % pid,
                       engine="tlc-conformance", level_claimed=dict(category="model_checking", text=text, design_ref="DESIGN.md section " + ref),
                       level_note=NOTE, technique=TECH))
m = dict(version=1, setup_cmd="./check --setup",
         hooks=dict(guard="verif", enable="no hooks are needed: every property is observed at the public API (build tag 'verif' reserved, unused)",
                    baseline_off_cmd="cd /repo && GOFLAGS=-mod=mod go test -vet=off -count=1 ./...", source_commits=[], add_only=True),
         engines=[dict(name="tlc-conformance", path="/verif/check", serves_properties=BUILT,
                       kind_free_text="explicit TLA+ specification (spec/*.tla) used three ways with TLC: model checking of the property on the spec, exhaustive/simulated generation of cases and behaviours replayed into the real code by a Go harness (harness/), and trace validation of every recorded implementation event (Trace_*.tla)")],
         checks=checks,
         notes="See DESIGN.md. Exit 0/1/2 = held / violation / infrastructure. known_findings.json lists repaired and open genuine defects. VERIF_REPO overrides the tree under test (default /repo).",
         not_applicable=[dict(property_id="C%02d" % i, reason="check not built yet (work in progress; to be claimed once its pipeline exists)")
                         for i in range(1, 21) if "C%02d" % i not in BUILT])
json.dump(m, open(os.path.join(V, "MANIFEST.json"), "w"), indent=1)
print("MANIFEST: %d checks" % len(checks))
